# Builds the verification workers from /repo's current working tree.
REPO ?= /repo
B ?= build
# always absolute, so that the targets written to the -MMD dependency files match the rule targets whatever way make was invoked
override B := $(abspath $(B))
CXXSTD := -std=c++17
DEFS := -DFASTSCAPELIB_VERIF_HOOKS -DNDEBUG -D_GLIBCXX_ASSERTIONS
INC := -I$(REPO)/include
COMMON := $(CXXSTD) -O1 -g1 $(DEFS) $(INC) -MMD -MP -pthread -Wno-deprecated-declarations

ADDR_FLAGS := -fsanitize=address,undefined -fsanitize-recover=all -fno-omit-frame-pointer \
  -finstrument-functions -finstrument-functions-exclude-file-list=/usr/include,/usr/lib,/verif/,harness/,sim/ \
  -DVERIF_FLAVOUR='"addr"'
TSAN_FLAGS := -fsanitize=thread -fno-omit-frame-pointer -DVERIF_FLAVOUR='"tsan"'

GXX := g++
CLANGXX := clang++

WORLD_GRIDS := profile raster_rook raster_queen raster_bishop raster_queen_nc raster_rook_nc trimesh profile_nc raster_bishop_nc

.PHONY: all pool world clean
all: pool world
pool: $(B)/addr/pool $(B)/tsan/pool
world: $(B)/addr/world $(B)/tsan/world

$(B)/sched.o: sim/sched.cpp sim/sched.hpp
	@mkdir -p $(B)
	$(GXX) $(CXXSTD) -O2 -g $(INC) -MMD -MP -c $< -o $@
$(B)/sanopts.o: harness/sanopts.cpp
	@mkdir -p $(B)
	$(GXX) $(CXXSTD) -O2 -c $< -o $@

# ---- pool harness
$(B)/addr/pool_main.o: harness/pool_main.cpp
	@mkdir -p $(B)/addr
	$(GXX) $(COMMON) $(ADDR_FLAGS) -c $< -o $@
$(B)/tsan/pool_main.o: harness/pool_main.cpp
	@mkdir -p $(B)/tsan
	$(CLANGXX) $(COMMON) $(TSAN_FLAGS) -c $< -o $@
$(B)/addr/pool: $(B)/addr/pool_main.o $(B)/sched.o $(B)/sanopts.o
	$(GXX) -fsanitize=address,undefined -pthread $^ -o $@
$(B)/tsan/pool: $(B)/tsan/pool_main.o $(B)/sched.o $(B)/sanopts.o
	$(CLANGXX) -fsanitize=thread -pthread $^ -o $@

# ---- world harness (one TU per grid family)
WORLD_ADDR_OBJS := $(patsubst %,$(B)/addr/world_%.o,$(WORLD_GRIDS)) $(B)/addr/world_main.o
WORLD_TSAN_OBJS := $(patsubst %,$(B)/tsan/world_%.o,$(WORLD_GRIDS)) $(B)/tsan/world_main.o
$(B)/addr/world_%.o: harness/world_%.cpp
	@mkdir -p $(B)/addr
	$(GXX) $(COMMON) $(ADDR_FLAGS) -c $< -o $@
$(B)/tsan/world_%.o: harness/world_%.cpp
	@mkdir -p $(B)/tsan
	$(CLANGXX) $(COMMON) $(TSAN_FLAGS) -c $< -o $@
$(B)/addr/world: $(WORLD_ADDR_OBJS) $(B)/sched.o $(B)/sanopts.o
	$(GXX) -fsanitize=address,undefined -pthread $^ -o $@
$(B)/tsan/world: $(WORLD_TSAN_OBJS) $(B)/sched.o $(B)/sanopts.o
	$(CLANGXX) -fsanitize=thread -pthread $^ -o $@

clean:
	rm -rf $(B)

-include $(B)/*.d $(B)/addr/*.d $(B)/tsan/*.d
