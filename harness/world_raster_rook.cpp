// world harness instantiation for one grid family
#include "world.hpp"
namespace vw
{
    template class Runner<rook_grid>;
    IRunner* make_runner_raster_rook()
    {
        return new Runner<rook_grid>(G_RASTER_ROOK);
    }
}
