// world harness instantiation for one grid family
#include "world.hpp"
namespace vw
{
    template class Runner<bishop_grid>;
    IRunner* make_runner_raster_bishop()
    {
        return new Runner<bishop_grid>(G_RASTER_BISHOP);
    }
}
