// Explicit, serialisable description of a world (grid + operator sequence) and of a history.
#pragma once
#include <cinttypes>
#include <cstdio>
#include <cstdlib>
#include <cstring>
#include <sstream>
#include <string>
#include <vector>

namespace vw
{
    enum GridKind
    {
        G_PROFILE = 0,
        G_RASTER_ROOK,
        G_RASTER_QUEEN,
        G_RASTER_BISHOP,
        G_RASTER_QUEEN_NC,
        G_RASTER_ROOK_NC,
        G_TRIMESH,
        G_PROFILE_NC,        // appended: numeric values of the older kinds (and the worlds their seeds generate) stay as they were
        G_RASTER_BISHOP_NC,
        G_COUNT
    };
    inline const char* grid_kind_name(int k)
    {
        static const char* n[] = { "profile", "raster_rook", "raster_queen", "raster_bishop", "raster_queen_nc", "raster_rook_nc", "trimesh", "profile_nc", "raster_bishop_nc" };
        return (k >= 0 && k < G_COUNT) ? n[k] : "?";
    }
    inline int grid_kind_from(const std::string& s)
    {
        for (int k = 0; k < G_COUNT; ++k)
            if (s == grid_kind_name(k))
                return k;
        return -1;
    }
    inline bool grid_is_raster(int k)
    {
        return (k >= G_RASTER_ROOK && k <= G_RASTER_ROOK_NC) || k == G_RASTER_BISHOP_NC;
    }
    inline bool grid_is_profile(int k)
    {
        return k == G_PROFILE || k == G_PROFILE_NC;
    }
    inline bool grid_has_cache(int k)
    {
        return k == G_PROFILE || k == G_RASTER_ROOK || k == G_RASTER_QUEEN || k == G_RASTER_BISHOP;
    }

    struct GridSpec
    {
        int kind = G_RASTER_QUEEN;
        // structured grids (profile: cols = size, dx = spacing, bs[0..1] = left/right)
        std::size_t rows = 1, cols = 2;
        double dy = 1.0, dx = 1.0;
        int bs[4] = { 1, 1, 1, 1 };  // left, right, top, bottom (node_status values)
        std::vector<std::pair<std::size_t, int>> overrides;  // flat index -> status
        // trimesh: jittered nx x ny point lattice, triangulated cell by cell
        std::size_t mesh_nx = 3, mesh_ny = 3;
        uint64_t mesh_seed = 0;
        int mesh_holes = 0;
        int share_grid = 0;  // reference worlds (twin / prefix / fresh) are built on the main world's grid object
        int reuse_input = 0; // the caller keeps ONE elevation array object and overwrites it before each update
        int mesh_extra = 0;  // trimesh: points appended after the lattice that no triangle references (isolated nodes)
        int from_length = 0; // structured grids: built through the from_length factory (total lengths instead of spacing)
        std::size_t size() const
        {
            if (kind == G_TRIMESH)
                return mesh_nx * mesh_ny + static_cast<std::size_t>(mesh_extra);
            if (kind == G_PROFILE || kind == G_PROFILE_NC)
                return cols;
            return rows * cols;
        }
    };

    enum OperatorKind
    {
        O_SINGLE = 0,
        O_MULTI,
        O_PFLOOD,
        O_MST,
        O_SNAPSHOT
    };

    struct OperatorSpec
    {
        int kind = O_SINGLE;
        int threads = 0;       // single router
        double exponent = 1.0; // multi router
        int mst_method = 0;    // 0 kruskal 1 boruvka
        int mst_route = 1;     // 0 basic 1 carve
        std::string name;      // snapshot
        int save_graph = 1, save_elev = 0;
    };

    enum HOpKind
    {
        H_UPDATE = 0,
        H_SET_MASK,
        H_SET_BASE,
        H_PARAM,
        H_ACCUMULATE,
        H_BASINS,
        H_KERNEL,
        H_QUERY,
        H_REFUSED,
        H_REPEAT,
        H_ERODE,
        H_COUNT
    };
    inline const char* hop_name(int k)
    {
        static const char* n[] = { "update", "set_mask", "set_base", "param", "accumulate", "basins", "kernel", "query", "refused", "repeat", "erode" };
        return (k >= 0 && k < H_COUNT) ? n[k] : "?";
    }

    struct HOp
    {
        int kind = H_UPDATE;
        std::vector<double> field;         // update / accumulate(field)
        std::vector<uint8_t> mask;         // set_mask
        std::vector<std::size_t> levels;   // set_base
        long a = 0, b = 0, c = 0, d = 0;   // small integer arguments
        double x = 0.0, y = 0.0;           // real arguments
        std::string name;                  // snapshot name ("-" = main graph)
    };

    struct WorldSpec
    {
        GridSpec grid;
        std::vector<OperatorSpec> ops;
        std::vector<HOp> history;
    };

    // ---------------------------------------------------------------- serialisation
    inline std::string hexd(double v)
    {
        char b[64];
        snprintf(b, sizeof b, "%a", v);
        return b;
    }
    inline double unhexd(const std::string& s)
    {
        return strtod(s.c_str(), nullptr);
    }

    inline std::string spec_lines(const WorldSpec& w)
    {
        std::ostringstream o;
        const GridSpec& g = w.grid;
        o << "x grid " << grid_kind_name(g.kind) << " " << g.rows << " " << g.cols << " " << hexd(g.dy) << " " << hexd(g.dx) << " "
          << g.bs[0] << " " << g.bs[1] << " " << g.bs[2] << " " << g.bs[3] << " " << g.mesh_nx << " " << g.mesh_ny << " " << g.mesh_seed
          << " " << g.mesh_holes << " " << g.share_grid << " " << g.reuse_input << " " << g.mesh_extra << " " << g.from_length << "\n";
        for (const auto& ov : g.overrides)
            o << "x status " << ov.first << " " << ov.second << "\n";
        for (const OperatorSpec& s : w.ops)
        {
            o << "x operator " << s.kind << " " << s.threads << " " << hexd(s.exponent) << " " << s.mst_method << " " << s.mst_route << " "
              << (s.name.empty() ? "-" : s.name) << " " << s.save_graph << " " << s.save_elev << "\n";
        }
        for (const HOp& h : w.history)
        {
            o << "op " << hop_name(h.kind) << " " << h.a << " " << h.b << " " << h.c << " " << h.d << " " << hexd(h.x) << " " << hexd(h.y) << " "
              << (h.name.empty() ? "-" : h.name);
            o << " F " << h.field.size();
            for (double v : h.field)
                o << " " << hexd(v);
            o << " M " << h.mask.size();
            for (uint8_t v : h.mask)
                o << " " << int(v);
            o << " L " << h.levels.size();
            for (std::size_t v : h.levels)
                o << " " << v;
            o << "\n";
        }
        return o.str();
    }

    // tokens: as split by the replay reader ("x" lines -> extra, "op" lines -> ops)
    inline bool spec_from_tokens(const std::vector<std::vector<std::string>>& extra, const std::vector<std::vector<std::string>>& ops,
                                 WorldSpec& w)
    {
        bool have_grid = false;
        for (const auto& t : extra)
        {
            if (t.empty())
                continue;
            if (t[0] == "grid" && t.size() >= 14)
            {
                GridSpec& g = w.grid;
                g.kind = grid_kind_from(t[1]);
                if (g.kind < 0)
                    return false;
                g.rows = strtoull(t[2].c_str(), nullptr, 10);
                g.cols = strtoull(t[3].c_str(), nullptr, 10);
                g.dy = unhexd(t[4]);
                g.dx = unhexd(t[5]);
                for (int i = 0; i < 4; ++i)
                    g.bs[i] = atoi(t[6 + static_cast<std::size_t>(i)].c_str());
                g.mesh_nx = strtoull(t[10].c_str(), nullptr, 10);
                g.mesh_ny = strtoull(t[11].c_str(), nullptr, 10);
                g.mesh_seed = strtoull(t[12].c_str(), nullptr, 10);
                g.mesh_holes = atoi(t[13].c_str());
                g.share_grid = t.size() > 14 ? atoi(t[14].c_str()) : 0;
                g.reuse_input = t.size() > 15 ? atoi(t[15].c_str()) : 0;
                g.mesh_extra = t.size() > 16 ? atoi(t[16].c_str()) : 0;
                g.from_length = t.size() > 17 ? atoi(t[17].c_str()) : 0;
                have_grid = true;
            }
            else if (t[0] == "status" && t.size() >= 3)
                w.grid.overrides.push_back({ strtoull(t[1].c_str(), nullptr, 10), atoi(t[2].c_str()) });
            else if (t[0] == "operator" && t.size() >= 9)
            {
                OperatorSpec s;
                s.kind = atoi(t[1].c_str());
                s.threads = atoi(t[2].c_str());
                s.exponent = unhexd(t[3]);
                s.mst_method = atoi(t[4].c_str());
                s.mst_route = atoi(t[5].c_str());
                s.name = t[6] == "-" ? "" : t[6];
                s.save_graph = atoi(t[7].c_str());
                s.save_elev = atoi(t[8].c_str());
                w.ops.push_back(s);
            }
        }
        for (const auto& t : ops)
        {
            if (t.size() < 8)
                return false;
            HOp h;
            h.kind = -1;
            for (int k = 0; k < H_COUNT; ++k)
                if (t[0] == hop_name(k))
                    h.kind = k;
            if (h.kind < 0)
                return false;
            h.a = atol(t[1].c_str());
            h.b = atol(t[2].c_str());
            h.c = atol(t[3].c_str());
            h.d = atol(t[4].c_str());
            h.x = unhexd(t[5]);
            h.y = unhexd(t[6]);
            h.name = t[7] == "-" ? "" : t[7];
            std::size_t p = 8;
            auto need = [&](const char* tag) -> long
            {
                if (p + 1 >= t.size() + 1 || p >= t.size() || t[p] != tag)
                    return -1;
                ++p;
                if (p >= t.size())
                    return -1;
                return atol(t[p++].c_str());
            };
            long nf = need("F");
            if (nf < 0)
                return false;
            for (long i = 0; i < nf && p < t.size(); ++i)
                h.field.push_back(unhexd(t[p++]));
            long nm = need("M");
            if (nm < 0)
                return false;
            for (long i = 0; i < nm && p < t.size(); ++i)
                h.mask.push_back(static_cast<uint8_t>(atoi(t[p++].c_str())));
            long nl = need("L");
            if (nl < 0)
                return false;
            for (long i = 0; i < nl && p < t.size(); ++i)
                h.levels.push_back(strtoull(t[p++].c_str(), nullptr, 10));
            w.history.push_back(h);
        }
        return have_grid && !w.ops.empty();
    }

    inline std::string op_brief(const HOp& h)
    {
        std::string s = hop_name(h.kind);
        switch (h.kind)
        {
            case H_UPDATE:
                s += "(field[" + std::to_string(h.field.size()) + "] kind " + std::to_string(h.a) + ")";
                break;
            case H_SET_MASK:
            {
                std::size_t m = 0;
                for (auto v : h.mask)
                    m += v;
                s += "(" + std::to_string(m) + " masked)";
                break;
            }
            case H_SET_BASE:
                s += "(" + std::to_string(h.levels.size()) + " nodes)";
                break;
            case H_PARAM:
                s += "(op" + std::to_string(h.a) + ")";
                break;
            case H_ACCUMULATE:
                s += "(overload " + std::to_string(h.a) + ")";
                break;
            case H_KERNEL:
                s += "(threads " + std::to_string(h.a) + " blk " + std::to_string(h.b) + " lvl " + std::to_string(h.c) + " dir " + std::to_string(h.d)
                     + (h.name.empty() ? "" : " on " + h.name) + ")";
                break;
            case H_QUERY:
                s += "(node " + std::to_string(h.a) + " acc " + std::to_string(h.b) + ")";
                break;
            case H_REFUSED:
                s += "(" + std::to_string(h.a) + ")";
                break;
            default:
                break;
        }
        return s;
    }

    inline std::string spec_brief(const WorldSpec& w)
    {
        std::string s = std::string(grid_kind_name(w.grid.kind));
        if (w.grid.kind == G_TRIMESH)
            s += " " + std::to_string(w.grid.mesh_nx) + "x" + std::to_string(w.grid.mesh_ny) + " holes " + std::to_string(w.grid.mesh_holes)
                 + " isolated " + std::to_string(w.grid.mesh_extra);
        else
            s += " " + std::to_string(w.grid.rows) + "x" + std::to_string(w.grid.cols) + " borders " + std::to_string(w.grid.bs[0])
                 + std::to_string(w.grid.bs[1]) + std::to_string(w.grid.bs[2]) + std::to_string(w.grid.bs[3]);
        s += " | ops:";
        for (const OperatorSpec& o : w.ops)
        {
            switch (o.kind)
            {
                case O_SINGLE:
                    s += " single(" + std::to_string(o.threads) + ")";
                    break;
                case O_MULTI:
                    s += " multi";
                    break;
                case O_PFLOOD:
                    s += " pflood";
                    break;
                case O_MST:
                    s += std::string(" mst(") + (o.mst_method ? "boruvka" : "kruskal") + "," + (o.mst_route ? "carve" : "basic") + ")";
                    break;
                case O_SNAPSHOT:
                    s += " snap(" + o.name + (o.save_graph ? ",g" : "") + (o.save_elev ? ",e" : "") + ")";
                    break;
            }
        }
        s += " | history:";
        for (const HOp& h : w.history)
            s += " " + op_brief(h) + ";";
        return s;
    }
}

#include <map>
#include "../sim/sched.hpp"

namespace vw
{
    enum Mode
    {
        MODE_C07 = 7,
        MODE_C08 = 8,
        MODE_C09 = 9,
        MODE_C10 = 10,
        MODE_C16 = 16,
        MODE_C19 = 19
    };

    struct RunOutcome
    {
        std::string cls, key, detail;
        std::map<std::string, uint64_t> counters;
        bool nontrivial = false;
        void violation(const std::string& c, const std::string& k, const std::string& d)
        {
            if (!cls.empty())
                return;  // keep the first
            cls = c;
            key = k;
            detail = d;
        }
    };

    struct IRunner
    {
        virtual ~IRunner() = default;
        virtual void generate(vsim::Rng& r, int mode, bool thorough, WorldSpec& out) = 0;
        virtual void execute(const WorldSpec& w, int mode, RunOutcome& out) = 0;
    };
    IRunner* get_runner(int kind);

    // index of the history operation in progress (context for fatal handlers)
    extern int g_current_op;
}
