// Default sanitizer options for the verification workers (overridable through the usual
// ASAN_OPTIONS / UBSAN_OPTIONS / TSAN_OPTIONS environment variables, e.g. for symbolised replays).
// Compiled without instrumentation.
extern "C"
{
    __attribute__((used, visibility("default"))) const char* __asan_default_options()
    {
        return "halt_on_error=0:detect_leaks=0:exitcode=77:symbolize=0:abort_on_error=0:"
               "allocator_may_return_null=1:detect_stack_use_after_return=0:print_summary=1:"
               "handle_segv=1:handle_abort=1";
    }
    __attribute__((used, visibility("default"))) const char* __ubsan_default_options()
    {
        return "halt_on_error=0:print_stacktrace=1:symbolize=0:print_summary=1";
    }
    __attribute__((used, visibility("default"))) const char* __tsan_default_options()
    {
        return "halt_on_error=0:exitcode=0:report_thread_leaks=0:suppress_equal_stacks=0:"
               "suppress_equal_addresses=0:symbolize=0:report_signal_unsafe=0:history_size=2:"
               "second_deadlock_stack=0";
    }
}
