// Shared worker scaffolding: CLI, result lines, stderr capture, replay files.
#pragma once
#include <cinttypes>
#include <cstdio>
#include <cstdlib>
#include <cstring>
#include <fstream>
#include <map>
#include <sstream>
#include <string>
#include <vector>

#include <fcntl.h>
#include <sys/stat.h>
#include <unistd.h>

#include "../sim/sched.hpp"

#ifndef VERIF_FLAVOUR
#define VERIF_FLAVOUR "plain"
#endif

namespace vh
{
    // ------------------------------------------------------------------ small utils
    inline std::string json_escape(const std::string& s)
    {
        std::string o;
        for (char c : s)
        {
            switch (c)
            {
                case '"':
                    o += "\\\"";
                    break;
                case '\\':
                    o += "\\\\";
                    break;
                case '\n':
                    o += "\\n";
                    break;
                case '\t':
                    o += "\\t";
                    break;
                case '\r':
                    break;
                default:
                    if (static_cast<unsigned char>(c) < 0x20)
                        o += ' ';
                    else
                        o += c;
            }
        }
        return o;
    }

    inline std::string hex64(uint64_t v)
    {
        char b[32];
        snprintf(b, sizeof b, "%016" PRIx64, v);
        return b;
    }

    struct Args
    {
        uint64_t seed = 1;
        uint64_t from = 0, to = 1;
        std::string tier = "quick";
        std::string replay;      // file to replay
        std::string replay_dir;  // where to write replay files for violations
        std::string mode;        // harness-specific selection (property id)
        bool verbose = false;
        bool keep_going = false;  // do not stop at the first violation
        bool verify_replay = false;  // re-execute every run from its recorded deviations and compare event hashes
        int max_viol = 3;
        std::string gate;         // comma separated violation classes that count for this check ("" = all)
        bool gates(const std::string& cls) const
        {
            if (gate.empty())
                return true;
            std::string g = "," + gate + ",";
            return g.find("," + cls + ",") != std::string::npos;
        }
    };

    inline Args parse_args(int argc, char** argv)
    {
        Args a;
        for (int i = 1; i < argc; ++i)
        {
            std::string k = argv[i];
            auto val = [&]() -> std::string { return (i + 1 < argc) ? argv[++i] : ""; };
            if (k == "--seed")
                a.seed = strtoull(val().c_str(), nullptr, 10);
            else if (k == "--from")
                a.from = strtoull(val().c_str(), nullptr, 10);
            else if (k == "--to")
                a.to = strtoull(val().c_str(), nullptr, 10);
            else if (k == "--tier")
                a.tier = val();
            else if (k == "--replay")
                a.replay = val();
            else if (k == "--replay-dir")
                a.replay_dir = val();
            else if (k == "--mode")
                a.mode = val();
            else if (k == "--verbose")
                a.verbose = true;
            else if (k == "--verify-replay")
                a.verify_replay = true;
            else if (k == "--keep-going")
                a.keep_going = true;
            else if (k == "--gate")
                a.gate = val();
            else if (k == "--max-viol")
                a.max_viol = atoi(val().c_str());
        }
        return a;
    }

    // ------------------------------------------------------------------ stderr capture
    // Sanitizer runtimes write their reports to fd 2 with raw write(2). We point fd 2 at a
    // private file and look at what was appended during each run.
    struct StderrCapture
    {
        int fd = -1;
        int orig = -1;  // the original stderr
        off_t mark = 0;
        std::string path;
        void echo(const std::string& text)
        {
            if (orig >= 0 && !text.empty())
            {
                ssize_t r = write(orig, text.data(), text.size());
                (void) r;
            }
        }

        void start()
        {
            char tmpl[] = "/dev/shm/verif-stderr-XXXXXX";
            fd = mkstemp(tmpl);
            if (fd < 0)
            {
                char t2[] = "/tmp/verif-stderr-XXXXXX";
                fd = mkstemp(t2);
                path = t2;
            }
            else
                path = tmpl;
            if (fd < 0)
                return;
            unlink(path.c_str());
            fflush(stderr);
            orig = dup(2);
            dup2(fd, 2);
            mark = 0;
        }
        void begin_run()
        {
            if (fd < 0)
                return;
            fflush(stderr);
            mark = lseek(fd, 0, SEEK_END);
        }
        // text appended since begin_run (bounded)
        std::string since(std::size_t max_bytes = 1 << 16)
        {
            std::string out;
            if (fd < 0)
                return out;
            fflush(stderr);
            off_t end = lseek(fd, 0, SEEK_END);
            if (end <= mark)
                return out;
            std::size_t n = static_cast<std::size_t>(end - mark);
            if (n > max_bytes)
                n = max_bytes;
            out.resize(n);
            ssize_t r = pread(fd, &out[0], n, mark);
            if (r < 0)
                r = 0;
            out.resize(static_cast<std::size_t>(r));
            // keep the file small
            if (end > (64 << 20))
            {
                if (ftruncate(fd, 0) == 0)
                    lseek(fd, 0, SEEK_SET);
                mark = 0;
            }
            return out;
        }
    };

    // classify sanitizer output; returns "" when nothing relevant was printed
    inline std::string sanitizer_class(const std::string& text)
    {
        if (text.find("ERROR: AddressSanitizer") != std::string::npos)
            return "asan";
        if (text.find("runtime error:") != std::string::npos)
            return "ubsan";
        if (text.find("WARNING: ThreadSanitizer") != std::string::npos)
            return "tsan";
        if (text.find("Assertion") != std::string::npos && text.find("failed") != std::string::npos)
            return "assert";
        return "";
    }

    // first line of a report + the first frames that mention the library
    inline std::string sanitizer_summary(const std::string& text)
    {
        std::istringstream is(text);
        std::string line, out;
        int frames = 0;
        while (std::getline(is, line))
        {
            bool head = line.find("ERROR: AddressSanitizer") != std::string::npos
                        || line.find("runtime error:") != std::string::npos
                        || line.find("WARNING: ThreadSanitizer") != std::string::npos
                        || line.find("SUMMARY:") != std::string::npos;
            bool frame = line.find("fastscapelib") != std::string::npos && line.find("#") != std::string::npos;
            if (head || (frame && frames < 6))
            {
                if (frame)
                    ++frames;
                if (out.size() < 3000)
                    out += line.substr(0, 400) + "\n";
            }
        }
        return out;
    }

    // ------------------------------------------------------------------ replay files
    struct ReplayFile
    {
        std::map<std::string, std::string> kv;           // single-valued keys
        std::vector<std::vector<std::string>> ops;       // "op ..." lines (tokens after "op")
        std::vector<vsim::Deviation> devs;               // "dev ..." lines
        std::vector<std::vector<std::string>> extra;     // other multi lines ("x <key> ...")
    };

    inline bool read_replay(const std::string& path, ReplayFile& rf)
    {
        std::ifstream f(path);
        if (!f)
            return false;
        std::string line;
        while (std::getline(f, line))
        {
            if (line.empty() || line[0] == '#')
                continue;
            std::istringstream is(line);
            std::string k;
            is >> k;
            if (k == "op")
            {
                std::vector<std::string> t;
                std::string w;
                while (is >> w)
                    t.push_back(w);
                rf.ops.push_back(t);
            }
            else if (k == "dev")
            {
                vsim::Deviation d;
                std::string cls;
                is >> cls >> d.thr >> d.count >> d.to >> d.spur;
                d.cls = cls.empty() ? 'S' : cls[0];
                rf.devs.push_back(d);
            }
            else if (k == "x")
            {
                std::vector<std::string> t;
                std::string w;
                while (is >> w)
                    t.push_back(w);
                rf.extra.push_back(t);
            }
            else
            {
                std::string rest;
                std::getline(is, rest);
                std::size_t p = rest.find_first_not_of(' ');
                rf.kv[k] = p == std::string::npos ? "" : rest.substr(p);
            }
        }
        return true;
    }

    inline void mkdirs(const std::string& dir)
    {
        std::string cur;
        for (std::size_t i = 0; i <= dir.size(); ++i)
        {
            if (i == dir.size() || dir[i] == '/')
            {
                if (!cur.empty())
                    mkdir(cur.c_str(), 0777);
            }
            if (i < dir.size())
                cur += dir[i];
        }
    }

    inline std::string dev_lines(const std::vector<vsim::Deviation>& devs)
    {
        std::string out;
        char b[128];
        for (const auto& d : devs)
        {
            snprintf(b, sizeof b, "dev %c %d %" PRIu64 " %d %d\n", d.cls, d.thr, d.count, d.to, d.spur);
            out += b;
        }
        return out;
    }

    // ------------------------------------------------------------------ result lines
    struct Result
    {
        uint64_t run = 0;
        std::string verdict = "ok";  // ok | violation
        std::string cls;             // violation class
        std::string key;             // stable key of the violation (for known findings)
        std::string detail;
        std::string replay_path;
        std::string workload;        // compact description (for samples)
        uint64_t workload_hash = 0;
        bool nontrivial = false;
        vsim::Stats st;
        std::map<std::string, uint64_t> counters;  // harness probes / fault counters
    };

    // totals over the runs of this worker process (printed as one "agg" line)
    struct Aggregate
    {
        uint64_t runs = 0;
        std::map<std::string, uint64_t> c;
        uint32_t pair_bits[64] = {};
        void add(const Result& r)
        {
            ++runs;
            const vsim::Stats& st = r.st;
            c["steps"] += st.steps;
            c["fn_points"] += st.fn_points;
            c["switches"] += st.switches;
            c["forced_switches"] += st.forced_switches;
            c["decisions_multi"] += st.decisions_multi;
            c["threads"] += st.threads;
            c["f.preemption_at_sync_point"] += st.switches - st.forced_switches - st.preemptions;
            c["f.preemption_inside_callback"] += st.preemptions;
            c["f.spurious_wakeup"] += st.spurious;
            c["f.stall"] += st.stalls;
            c["f.stall_steps"] += st.stall_steps;
            c["f.delayed_thread_start"] += st.delayed_starts;
            c["p.notify_between_count_and_wait"] += st.probe_notify_between_count_and_wait;
            c["p.spurious_before_full_count"] += st.probe_spurious_before_full_count;
            c["p.switch_inside_job"] += st.probe_switch_inside_job;
            c["p.concurrent_jobs"] += st.probe_concurrent_jobs;
            c["p.cv_waits"] += st.cv_waits;
            c["p.notifies"] += st.notifies;
            c["p.polling_marks"] += st.polling_marks;
            if (st.max_live > c["max_live"])
                c["max_live"] = st.max_live;
            for (const auto& kv : r.counters)
            {
                if (kv.first.compare(0, 4, "max.") == 0)
                {
                    if (kv.second > c[kv.first])
                        c[kv.first] = kv.second;
                }
                else
                    c[kv.first] += kv.second;
            }
            for (int i = 0; i < 64; ++i)
                pair_bits[i] |= st.pair_bits[i];
        }
        void print() const
        {
            std::string s = "{\"agg\":{\"runs\":" + std::to_string(runs);
            for (const auto& kv : c)
                s += ",\"" + kv.first + "\":" + std::to_string(kv.second);
            s += "},\"pairs\":\"";
            char b[16];
            for (int i = 0; i < 64; ++i)
            {
                snprintf(b, sizeof b, "%08x", pair_bits[i]);
                s += b;
            }
            s += "\"}";
            puts(s.c_str());
            fflush(stdout);
        }
    };

    inline void print_result(const Result& r, bool with_workload)
    {
        if (r.verdict == "ok" && !with_workload)
        {
            // compact form for the common case
            printf("o %" PRIu64 " %016" PRIx64 " %016" PRIx64 " %016" PRIx64 " %d %" PRIu64 " %" PRIu64 "\n", r.run, r.st.event_hash,
                   r.st.sched_hash, r.workload_hash, r.nontrivial ? 1 : 0, r.st.steps, r.st.switches);
            fflush(stdout);
            return;
        }
        std::string s = "{\"run\":" + std::to_string(r.run) + ",\"verdict\":\"" + r.verdict + "\"";
        if (!r.cls.empty())
            s += ",\"class\":\"" + json_escape(r.cls) + "\"";
        if (!r.key.empty())
            s += ",\"key\":\"" + json_escape(r.key) + "\"";
        if (!r.detail.empty())
            s += ",\"detail\":\"" + json_escape(r.detail.substr(0, 6000)) + "\"";
        if (!r.replay_path.empty())
            s += ",\"replay\":\"" + json_escape(r.replay_path) + "\"";
        s += ",\"hash\":\"" + hex64(r.st.event_hash) + "\"";
        s += ",\"shash\":\"" + hex64(r.st.sched_hash) + "\"";
        s += ",\"whash\":\"" + hex64(r.workload_hash) + "\"";
        s += ",\"nt\":" + std::string(r.nontrivial ? "1" : "0");
        s += ",\"steps\":" + std::to_string(r.st.steps);
        s += ",\"sw\":" + std::to_string(r.st.switches);
        s += ",\"workload\":\"" + json_escape(r.workload.substr(0, 2500)) + "\"";
        s += "}";
        puts(s.c_str());
        fflush(stdout);
    }

    inline void print_begin(uint64_t run)
    {
        printf("b %" PRIu64 "\n", run);
        fflush(stdout);
    }
}
