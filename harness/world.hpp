// World harness, part 3: worlds (grid + graph), history generation and execution with oracles.
#pragma once
#include "world_obs.hpp"

namespace vw
{
    inline std::string ops_signature(const std::vector<OperatorSpec>& ops)
    {
        std::string s;
        for (const auto& o : ops)
        {
            if (o.kind == O_SNAPSHOT)
                continue;
            if (!s.empty())
                s += "+";
            switch (o.kind)
            {
                case O_SINGLE:
                    s += o.threads > 1 ? "single_par" : "single";
                    break;
                case O_MULTI:
                    s += "multi";
                    break;
                case O_PFLOOD:
                    s += "pflood";
                    break;
                case O_MST:
                    s += "mst";
                    break;
            }
        }
        return s;
    }

    inline std::string first_word(const std::string& s)
    {
        std::size_t p = s.find(':');
        return p == std::string::npos ? s : s.substr(0, p);
    }

    // ------------------------------------------------------------------ a world
    template <class G>
    struct World
    {
        using grid_t = G;
        using graph_t = fs::flow_graph<G>;
        using impl_t = typename graph_t::impl_type;
        using arr_t = typename graph_t::data_array_type;

        std::unique_ptr<G> own_grid;  // declared before the graph: destroyed after it
        G* grid = nullptr;            // own_grid or a grid shared with (and owned by) another world
        OpHandles handles;
        std::vector<int> handle_src;  // index into the full operator list of the spec
        std::unique_ptr<graph_t> graph;
        arr_t last_result;
        bool has_result = false;

        // build a world running ops[0..upto) ; snapshots kept only if keep_snapshots
        void build(const GridSpec& gs, const std::vector<OperatorSpec>& ops, std::size_t upto, bool keep_snapshots, bool force_seq,
                   bool append_router_if_none, G* shared_grid = nullptr)
        {
            if (shared_grid)
                grid = shared_grid;
            else
            {
                own_grid = GridMaker<G>::make(gs);
                grid = own_grid.get();
            }
            bool has_router = false;
            for (std::size_t i = 0; i < upto && i < ops.size(); ++i)
            {
                if (ops[i].kind == O_SNAPSHOT && !keep_snapshots)
                    continue;
                if (ops[i].kind == O_SINGLE || ops[i].kind == O_MULTI)
                    has_router = true;
                handles.push_back(make_handle(ops[i], force_seq));
                handle_src.push_back(static_cast<int>(i));
            }
            if (!has_router && append_router_if_none)
            {
                OperatorSpec s;
                s.kind = O_SINGLE;
                handles.push_back(make_handle(s, true));
                handle_src.push_back(-1);
            }
            graph = std::make_unique<graph_t>(*grid, fs::make_flow_operator_sequence<impl_t>(handles));
        }

        arr_t make_array(const std::vector<double>& v) const
        {
            arr_t a = arr_t::from_shape(grid->shape());
            for (std::size_t i = 0; i < v.size() && i < a.size(); ++i)
                a.flat(i) = v[i];
            return a;
        }

        void set_mask(const std::vector<uint8_t>& m)
        {
            xt::xarray<bool> a = xt::xarray<bool>::from_shape(grid->shape());
            for (std::size_t i = 0; i < a.size(); ++i)
                a.flat(i) = i < m.size() && m[i] != 0;
            graph->set_mask(a);
        }

        void set_base(const std::vector<std::size_t>& levels)
        {
            graph->set_base_levels(levels);
        }

        // copy parameter values of operator `src_index` (index in the spec's operator list)
        void set_param(int src_index, double exponent, int mst_method, int mst_route)
        {
            for (std::size_t k = 0; k < handles.size(); ++k)
            {
                if (handle_src[k] != src_index)
                    continue;
                if (handles[k].kind == O_MULTI)
                    handles[k].multi->m_slope_exp = exponent;
                if (handles[k].kind == O_MST)
                {
                    handles[k].mst->m_basin_method = mst_method ? fs::mst_method::boruvka : fs::mst_method::kruskal;
                    handles[k].mst->m_route_method = mst_route ? fs::mst_route_method::carve : fs::mst_route_method::basic;
                }
            }
        }

        const arr_t& update(const arr_t& field)
        {
            const arr_t& res = graph->update_routes(field);
            last_result = res;
            has_result = true;
            return res;
        }
    };

    // ------------------------------------------------------------------ runner
    template <class G>
    class Runner : public IRunner
    {
    public:
        using world_t = World<G>;
        using graph_t = typename world_t::graph_t;
        using arr_t = typename world_t::arr_t;

        explicit Runner(int kind)
            : m_kind(kind)
        {
        }

        void generate(vsim::Rng& r, int mode, bool thorough, WorldSpec& out) override;
        void execute(const WorldSpec& w, int mode, RunOutcome& out) override;

    private:
        int m_kind;

        // ---- helpers shared by generation and execution
        static std::vector<std::vector<std::size_t>> adjacency(G& grid)
        {
            std::vector<std::vector<std::size_t>> adj(grid.size());
            typename G::neighbors_indices_type nb;
            for (std::size_t i = 0; i < grid.size(); ++i)
                for (auto j : grid.neighbors_indices(i, nb))
                    adj[i].push_back(j);
            return adj;
        }

        // at least one unmasked base level; with a resolver every unmasked component holds an unmasked one
        static bool domain_ok(const std::vector<std::vector<std::size_t>>& adj, const std::vector<uint8_t>& mask,
                              const std::vector<std::size_t>& base, bool need_components)
        {
            const std::size_t n = adj.size();
            if (base.empty())
                return false;
            std::vector<uint8_t> isb(n, 0);
            bool any_unmasked = false;
            for (auto b : base)
            {
                if (b >= n)
                    return false;
                // a base level may be masked (e.g. a masked stretch of a fixed-value border); it then
                // does not count as the outlet of any unmasked component
                if (!(b < mask.size() && mask[b]))
                {
                    isb[b] = 1;
                    any_unmasked = true;
                }
            }
            if (!any_unmasked)
                return false;
            if (!need_components)
                return true;
            std::vector<int> comp(n, -1);
            for (std::size_t s = 0; s < n; ++s)
            {
                if (comp[s] >= 0 || (s < mask.size() && mask[s]))
                    continue;
                bool has = false;
                std::vector<std::size_t> st{ s };
                comp[s] = 1;
                while (!st.empty())
                {
                    std::size_t u = st.back();
                    st.pop_back();
                    if (isb[u])
                        has = true;
                    for (auto v : adj[u])
                        if (comp[v] < 0 && !(v < mask.size() && mask[v]))
                        {
                            comp[v] = 1;
                            st.push_back(v);
                        }
                }
                if (!has)
                    return false;
            }
            return true;
        }

        // make `base` valid for (mask): drop masked ones, add one node per uncovered component
        static void repair_base(vsim::Rng& r, const std::vector<std::vector<std::size_t>>& adj, const std::vector<uint8_t>& mask,
                                std::vector<std::size_t>& base)
        {
            const std::size_t n = adj.size();
            std::vector<std::size_t> nb;
            std::vector<uint8_t> isb(n, 0);
            std::vector<uint8_t> kept(n, 0);
            for (auto b : base)
                if (b < n && !kept[b])
                {
                    kept[b] = 1;
                    nb.push_back(b);  // masked base levels are kept in the set
                    if (!(b < mask.size() && mask[b]))
                        isb[b] = 1;
                }
            std::vector<int> seen(n, 0);
            for (std::size_t s = 0; s < n; ++s)
            {
                if (seen[s] || (s < mask.size() && mask[s]))
                    continue;
                std::vector<std::size_t> comp, st{ s };
                seen[s] = 1;
                bool has = false;
                while (!st.empty())
                {
                    std::size_t u = st.back();
                    st.pop_back();
                    comp.push_back(u);
                    if (isb[u])
                        has = true;
                    for (auto v : adj[u])
                        if (!seen[v] && !(v < mask.size() && mask[v]))
                        {
                            seen[v] = 1;
                            st.push_back(v);
                        }
                }
                if (!has)
                {
                    std::size_t pick = comp[r.below(comp.size())];
                    isb[pick] = 1;
                    nb.push_back(pick);
                }
            }
            base = nb;
        }

        static std::vector<double> gen_field(vsim::Rng& r, std::size_t n, std::size_t cols, const std::vector<double>* previous, long& kind_out)
        {
            std::vector<double> f(n);
            long kind = static_cast<long>(r.below(previous ? 7 : 6));
            if (n >= 36 && cols >= 6 && r.chance(0.12))
                kind = 7;
            // very gentle relief: slopes around and far below the machine epsilon (still strictly positive)
            const bool tiny = r.chance(0.10);
            const bool ulp_ramp = !tiny && r.chance(0.05);
            if (ulp_ramp)
                kind = 9;
            kind_out = kind;
            switch (kind)
            {
                case 0:
                {
                    long k = r.range(1, 4);
                    for (auto& v : f)
                        v = static_cast<double>(r.range(0, k));
                    break;
                }
                case 1:
                    for (auto& v : f)
                        v = r.unit();
                    break;
                case 2:
                {
                    // bowl(s) + noise: nested / adjacent depressions
                    double cx = r.unit() * static_cast<double>(cols), cy = r.unit() * static_cast<double>(n / std::max<std::size_t>(cols, 1));
                    double amp = r.chance(0.5) ? 0.05 : 0.5;
                    for (std::size_t i = 0; i < n; ++i)
                    {
                        double x = static_cast<double>(i % cols), y = static_cast<double>(i / cols);
                        double d = std::sqrt((x - cx) * (x - cx) + (y - cy) * (y - cy));
                        f[i] = std::floor(d) * 0.5 + amp * r.unit();
                    }
                    break;
                }
                case 3:
                {
                    double c = r.chance(0.5) ? 0.0 : static_cast<double>(r.range(-2, 3));
                    for (auto& v : f)
                        v = c;
                    break;
                }
                case 4:
                {
                    long k = r.range(1, 3);
                    for (auto& v : f)
                        v = -static_cast<double>(r.range(0, k));
                    break;
                }
                case 5:
                {
                    // tilted plane with integer steps and a few pits
                    for (std::size_t i = 0; i < n; ++i)
                        f[i] = static_cast<double>(i / cols) + 0.25 * static_cast<double>(i % cols);
                    for (int k = 0; k < 3; ++k)
                        f[r.below(n)] -= static_cast<double>(r.range(1, 3));
                    break;
                }
                case 9:
                {
                    // ramp(s) whose steps are a few units in the last place of the elevation
                    const double base = r.chance(0.5) ? 1.0 : 1024.0;
                    const double ulp = std::nextafter(base, 2.0 * base) - base;
                    const long mult = r.range(1, 3);
                    for (std::size_t i = 0; i < n; ++i)
                    {
                        std::size_t x = i % cols, y = i / cols;
                        f[i] = base + ulp * static_cast<double>(mult * static_cast<long>(r.chance(0.5) ? x + y : (x > y ? x - y : y - x)));
                    }
                    if (r.chance(0.5))
                        f[r.below(n)] = base - ulp;  // a one-ulp pit
                    break;
                }
                case 7:
                {
                    // one large bowl surrounded by many one-node pits separated by ridges: many basins, and
                    // one basin with many neighbouring basins (high-degree nodes of the basin graph)
                    const double rows = static_cast<double>(n / cols);
                    const double cx = 0.5 * static_cast<double>(cols - 1), cy = 0.5 * (rows - 1.0);
                    const double rad = std::max(1.5, std::min(static_cast<double>(cols), rows) / (r.chance(0.5) ? 3.0 : 2.2));
                    for (std::size_t i = 0; i < n; ++i)
                    {
                        double x = static_cast<double>(i % cols), y = static_cast<double>(i / cols);
                        double d = std::sqrt((x - cx) * (x - cx) + (y - cy) * (y - cy));
                        if (d <= rad)
                            f[i] = 1.0 + d;
                        else if (((i % cols) + (i / cols)) % 2 == 0)
                            f[i] = 0.25 * static_cast<double>(r.range(0, 3));
                        else
                            f[i] = 10.0;
                    }
                    break;
                }
                default:
                {
                    // the library's own previous output (epsilon-filled surface), optionally uplifted
                    f = *previous;
                    if (r.chance(0.5))
                        for (auto& v : f)
                            v += 0.125;
                    if (r.chance(0.5))
                        f[r.below(n)] -= 1.0;
                    break;
                }
            }
            if (tiny)
            {
                // exact power-of-two scaling keeps the order relations of the field
                static const int exps[] = { -40, -54, -60, -200, -1000, -1030, -1065 };  // the last two: sub-normal relief
                const int e = exps[r.below(7)];
                for (auto& v : f)
                    v = std::ldexp(v, e);
                kind_out += 100;
            }
            return f;
        }
    };

    // ------------------------------------------------------------------ generation
    template <class G>
    void Runner<G>::generate(vsim::Rng& r, int mode, bool thorough, WorldSpec& w)
    {
        GridSpec& g = w.grid;
        g.kind = m_kind;
        // mostly small worlds (many short diverse runs); a few larger ones so that size-dependent paths
        // (many basins, high-degree basins, long levels) are reached as well
        const bool large = r.chance(thorough ? 0.04 : 0.02);
        const std::size_t max_nodes = large ? 400 : (thorough ? 144 : 64);
        const long max_dim = large ? 20 : (thorough ? 12 : 8);
        auto border = [&r]() -> int
        {
            double u = r.unit();
            return u < 0.5 ? 1 : (u < 0.75 ? 0 : 2);
        };
        if (grid_is_profile(m_kind))
        {
            g.rows = 1;
            g.cols = static_cast<std::size_t>(r.range(2, large ? 200 : (thorough ? 40 : 16)));
            g.dx = 0.25 + 3.0 * r.unit();
            if (r.chance(0.2))
                g.bs[0] = g.bs[1] = 3;
            else
            {
                g.bs[0] = border();
                g.bs[1] = border();
            }
        }
        else if (grid_is_raster(m_kind))
        {
            do
            {
                g.rows = static_cast<std::size_t>(r.range(2, max_dim));
                g.cols = static_cast<std::size_t>(r.range(2, max_dim));
            } while (g.rows * g.cols > max_nodes);
            g.dy = r.chance(0.3) ? 1.0 : 0.25 + 3.0 * r.unit();
            g.dx = r.chance(0.3) ? g.dy : 0.25 + 3.0 * r.unit();
            for (int i = 0; i < 4; ++i)
                g.bs[i] = border();
            if (r.chance(0.25))
                g.bs[0] = g.bs[1] = 3;
            if (r.chance(0.25))
                g.bs[2] = g.bs[3] = 3;
        }
        else
        {
            do
            {
                g.mesh_nx = static_cast<std::size_t>(r.range(2, large ? 18 : (thorough ? 10 : 7)));
                g.mesh_ny = static_cast<std::size_t>(r.range(2, large ? 18 : (thorough ? 10 : 7)));
            } while (g.mesh_nx * g.mesh_ny > max_nodes);
            g.mesh_seed = r.next() % 1000000;
            g.mesh_holes = static_cast<int>(r.range(0, 2));
            g.mesh_extra = r.chance(0.25) ? static_cast<int>(r.range(1, 2)) : 0;
        }
        g.share_grid = r.chance(0.4) ? 1 : 0;
        g.from_length = (m_kind != G_TRIMESH && r.chance(0.3)) ? 1 : 0;
        g.reuse_input = r.chance(0.5) ? 1 : 0;
        // status overrides
        if (r.chance(0.3))
        {
            std::vector<int> st = model_statuses(g);
            int k = static_cast<int>(r.range(1, 3));
            for (int i = 0; i < k; ++i)
            {
                std::size_t idx = r.below(g.size());
                if (m_kind != G_TRIMESH && st[idx] == 3)
                    continue;
                bool dup = false;
                for (auto& o : g.overrides)
                    if (o.first == idx)
                        dup = true;
                if (!dup)
                    g.overrides.push_back({ idx, m_kind == G_TRIMESH ? 1 : static_cast<int>(r.range(0, 2)) });
            }
        }

        // ---- operator sequence (valid by construction)
        int snap_id = 0;
        auto add_snap = [&](bool can_graph, double p)
        {
            if (!r.chance(p))
                return;
            OperatorSpec s;
            s.kind = O_SNAPSHOT;
            s.name = "s" + std::to_string(snap_id++);
            s.save_graph = can_graph && r.chance(0.8) ? 1 : 0;
            s.save_elev = (!s.save_graph || r.chance(0.4)) ? 1 : 0;
            // graph and elevation snapshots live in separate key spaces: a graph-only snapshot may share
            // its name with an elevation-only snapshot elsewhere in the sequence
            if (s.save_graph != s.save_elev && r.chance(0.3))
                for (const OperatorSpec& o : w.ops)
                {
                    if (o.kind != O_SNAPSHOT)
                        continue;
                    bool clash = false;  // the name must be free in the key space(s) this snapshot uses
                    for (const OperatorSpec& q : w.ops)
                        if (q.kind == O_SNAPSHOT && q.name == o.name && ((q.save_graph && s.save_graph) || (q.save_elev && s.save_elev)))
                            clash = true;
                    if (!clash)
                    {
                        s.name = o.name;
                        break;
                    }
                }
            w.ops.push_back(s);
        };
        const double psnap = mode == MODE_C16 ? 0.7 : ((mode == MODE_C08 || mode == MODE_C10 || mode == MODE_C19) ? 0.3 : 0.1);
        const bool want_single = mode == MODE_C19 || mode == MODE_C10;
        // Besides the usual shapes below, some worlds get a free-form sequence: any 1..5 operators that the
        // library's own rules accept (a router somewhere; the spanning-tree resolver only on a single-direction
        // state; graph snapshots only once a direction is defined), e.g. {multi, single}, {single, pflood},
        // {single, mst, mst}. Validity is decided here, independently of the library (C20 is not claimed).
        bool free_form = false;
        if (mode != MODE_C10 && r.chance(0.15))
        {
            for (int attempt = 0; attempt < 30 && !free_form; ++attempt)
            {
                std::vector<OperatorSpec> cand;
                int dir = 0, sid = 0;
                bool updated = false, ok = true, any_multi = false;
                long len = r.range(1, 5);
                for (long k = 0; k < len && ok; ++k)
                {
                    OperatorSpec s;
                    s.kind = static_cast<int>(r.below(5));
                    switch (s.kind)
                    {
                        case O_SINGLE:
                            s.threads = r.chance(0.2) ? static_cast<int>(r.range(2, 16)) : 0;
                            dir = 1;
                            updated = true;
                            break;
                        case O_MULTI:
                            s.exponent = r.chance(0.3) ? 0.0 : 0.5 * static_cast<double>(r.range(1, 4));
                            dir = 2;
                            updated = true;
                            any_multi = true;
                            break;
                        case O_PFLOOD:
                            break;
                        case O_MST:
                            if (dir != 1)
                                ok = false;
                            s.mst_method = static_cast<int>(r.below(2));
                            s.mst_route = static_cast<int>(r.below(2));
                            break;
                        default:
                            s.name = "s" + std::to_string(sid++);
                            s.save_graph = (dir != 0 && r.chance(0.7)) ? 1 : 0;
                            s.save_elev = (!s.save_graph || r.chance(0.4)) ? 1 : 0;
                            break;
                    }
                    cand.push_back(s);
                }
                if (ok && updated && dir != 0 && !(mode == MODE_C19 && (any_multi || dir != 1)))
                {
                    w.ops = cand;
                    free_form = true;
                }
            }
        }
        if (free_form)
            snap_id = 100;
        if (!free_form && r.chance(0.35))
        {
            OperatorSpec s;
            s.kind = O_PFLOOD;
            w.ops.push_back(s);
            add_snap(false, psnap);
        }
        if (free_form)
        {
        }
        else if (!want_single && r.chance(0.25))
        {
            OperatorSpec s;
            s.kind = O_MULTI;
            s.exponent = r.chance(0.3) ? 0.0 : 0.5 * static_cast<double>(r.range(1, 4));
            w.ops.push_back(s);
            add_snap(true, psnap);
        }
        else
        {
            OperatorSpec s;
            s.kind = O_SINGLE;
            double ppar = mode == MODE_C10 ? 1.0 : (mode == MODE_C08 ? 0.3 : 0.15);
            s.threads = r.chance(ppar) ? static_cast<int>(r.chance(0.6) ? r.range(2, 5) : r.range(2, 16)) : 0;
            w.ops.push_back(s);
            add_snap(true, psnap);
            if (r.chance(0.45))
            {
                OperatorSpec m;
                m.kind = O_MST;
                m.mst_method = static_cast<int>(r.below(2));
                m.mst_route = static_cast<int>(r.below(2));
                w.ops.push_back(m);
                add_snap(true, psnap);
            }
            if (mode != MODE_C19 && r.chance(mode == MODE_C10 ? 0.1 : 0.25))
            {
                OperatorSpec m;
                m.kind = O_MULTI;
                m.exponent = r.chance(0.3) ? 0.0 : 0.5 * static_cast<double>(r.range(1, 4));
                w.ops.push_back(m);
                add_snap(true, psnap);
            }
        }
        bool has_resolver = false;
        for (auto& o : w.ops)
            if (o.kind == O_PFLOOD || o.kind == O_MST)
                has_resolver = true;

        // ---- history
        std::unique_ptr<G> grid = GridMaker<G>::make(g);
        const std::size_t n = grid->size();
        auto adj = adjacency(*grid);
        std::vector<uint8_t> mask;  // empty = none
        std::vector<std::size_t> base;
        for (auto i : grid->nodes_indices(fs::node_status::fixed_value))
            base.push_back(i);
        std::vector<std::vector<std::size_t>> base_history;
        const std::size_t cols = m_kind == G_TRIMESH ? g.mesh_nx : g.cols;

        auto push_base = [&](std::vector<std::size_t> b)
        {
            base = b;
            // the list handed over may repeat entries (set semantics) and comes in a random order
            if (!b.empty() && r.chance(0.2))
                b.push_back(b[r.below(b.size())]);
            for (std::size_t i = b.size(); i > 1; --i)
                std::swap(b[i - 1], b[r.below(i)]);
            HOp h;
            h.kind = H_SET_BASE;
            h.levels = b;
            w.history.push_back(h);
            base_history.push_back(base);
        };
        if (!domain_ok(adj, mask, base, true))
        {
            repair_base(r, adj, mask, base);
            push_base(base);
        }
        else
            base_history.push_back(base);

        std::vector<double> prev_field;
        auto push_update = [&]()
        {
            HOp h;
            h.kind = H_UPDATE;
            h.field = gen_field(r, n, cols, prev_field.empty() ? nullptr : &prev_field, h.a);
            prev_field = h.field;
            w.history.push_back(h);
        };
        push_update();

        // weights per mode: update, set_mask, set_base, param, accumulate, basins, kernel, query, refused, repeat, erode
        static const int W[6][11] = {
            /* C07 */ { 15, 3, 3, 0, 2, 2, 3, 70, 0, 2, 0 },
            /* C08 */ { 20, 8, 8, 6, 10, 8, 16, 10, 6, 8, 14 },
            /* C09 */ { 38, 12, 15, 10, 4, 4, 2, 0, 7, 8, 5 },
            /* C10 */ { 34, 5, 5, 4, 8, 6, 34, 0, 0, 4, 3 },
            /* C16 */ { 40, 10, 10, 6, 3, 3, 14, 0, 12, 2, 2 },
            /* C19 */ { 32, 12, 12, 6, 0, 34, 0, 0, 0, 4, 2 },
        };
        int row = mode == MODE_C07 ? 0 : mode == MODE_C08 ? 1 : mode == MODE_C09 ? 2 : mode == MODE_C10 ? 3 : mode == MODE_C16 ? 4 : 5;
        int total = 0;
        for (int k = 0; k < 11; ++k)
            total += W[row][k];
        long len = r.range(2, thorough ? 28 : 11);
        std::vector<std::string> graph_snaps;
        for (auto& o : w.ops)
            if (o.kind == O_SNAPSHOT && o.save_graph)
                graph_snaps.push_back(o.name);
        for (long step = 0; step < len; ++step)
        {
            int pick = static_cast<int>(r.below(static_cast<uint64_t>(total)));
            int kind = 0;
            for (; kind < 11; ++kind)
            {
                if (pick < W[row][kind])
                    break;
                pick -= W[row][kind];
            }
            static const int kinds[11] = { H_UPDATE, H_SET_MASK, H_SET_BASE, H_PARAM, H_ACCUMULATE, H_BASINS, H_KERNEL, H_QUERY, H_REFUSED, H_REPEAT, H_ERODE };
            HOp h;
            h.kind = kinds[kind];
            switch (h.kind)
            {
                case H_UPDATE:
                    push_update();
                    continue;
                case H_SET_MASK:
                {
                    std::vector<uint8_t> m(n, 0);
                    double frac = r.chance(0.3) ? 0.0 : (r.chance(0.75) ? 0.3 : 0.8) * r.unit();
                    std::size_t unmasked = n;
                    for (std::size_t i = 0; i < n; ++i)
                        if (r.chance(frac) && unmasked > 1)
                        {
                            m[i] = 1;
                            --unmasked;
                        }
                    mask = m;
                    h.mask = m;
                    w.history.push_back(h);
                    // keep the base levels valid for the new mask
                    if (!domain_ok(adj, mask, base, true))
                    {
                        repair_base(r, adj, mask, base);
                        push_base(base);
                    }
                    continue;
                }
                case H_SET_BASE:
                {
                    std::vector<std::size_t> b;
                    if (base_history.size() > 1 && r.chance(0.4))
                        b = base_history[r.below(base_history.size())];  // restore an earlier set
                    else
                    {
                        std::size_t k = static_cast<std::size_t>(r.range(1, std::max<long>(1, static_cast<long>(n) / 4)));
                        for (std::size_t i = 0; i < k; ++i)
                            b.push_back(r.below(n));  // border or interior
                    }
                    repair_base(r, adj, mask, b);
                    push_base(b);
                    continue;
                }
                case H_PARAM:
                {
                    std::vector<int> cand;
                    for (std::size_t i = 0; i < w.ops.size(); ++i)
                        if (w.ops[i].kind == O_MULTI || w.ops[i].kind == O_MST)
                            cand.push_back(static_cast<int>(i));
                    if (cand.empty())
                        continue;
                    h.a = cand[r.below(cand.size())];
                    h.x = r.chance(0.25) ? 0.0 : 0.5 * static_cast<double>(r.range(1, 5));
                    h.b = static_cast<long>(r.below(2));
                    h.c = static_cast<long>(r.below(2));
                    w.history.push_back(h);
                    continue;
                }
                case H_ACCUMULATE:
                    h.a = static_cast<long>(r.below(4));
                    h.x = static_cast<double>(r.range(0, 3));
                    if (h.a < 2)
                    {
                        h.field.resize(n);
                        for (auto& v : h.field)
                            v = static_cast<double>(r.range(0, 4)) * 0.5;
                    }
                    w.history.push_back(h);
                    continue;
                case H_BASINS:
                    w.history.push_back(h);
                    continue;
                case H_KERNEL:
                {
                    bool par = r.chance(mode == MODE_C10 ? 0.9 : 0.5);
                    h.a = par ? (r.chance(0.6) ? r.range(2, 5) : r.range(2, 16)) : 1;
                    static const long blk[] = { 0, 0, 1, 2, 5, 40 };
                    h.b = blk[r.below(6)];
                    static const long lvl[] = { 0, 0, 1, 2, 4, 10, 1000 };
                    h.c = lvl[r.below(7)];
                    h.d = static_cast<long>(r.below(2));
                    if (h.a == 1 && r.chance(0.4))
                        h.d = 2;  // depth_upstream: supported by the sequential path only
                    if (!graph_snaps.empty() && r.chance(mode == MODE_C16 ? 0.8 : (mode == MODE_C10 ? 0.5 : 0.25)))
                        h.name = graph_snaps[r.below(graph_snaps.size())];
                    w.history.push_back(h);
                    continue;
                }
                case H_QUERY:
                    h.a = static_cast<long>(r.below(n));
                    h.b = static_cast<long>(r.below(8));
                    h.c = static_cast<long>(r.below(12));  // stale size of the output container
                    w.history.push_back(h);
                    continue;
                case H_REFUSED:
                    h.a = static_cast<long>(r.below(4));  // 0 wrong-shape mask, 1..3 mutators on a snapshot
                    if (h.a > 0)
                    {
                        if (graph_snaps.empty())
                            h.a = 0;
                        else
                            h.name = graph_snaps[r.below(graph_snaps.size())];
                    }
                    w.history.push_back(h);
                    continue;
                case H_REPEAT:
                    w.history.push_back(h);
                    continue;
                case H_ERODE:
                {
                    // a: 0 spl scalar K, 1 spl array K, 2 diffusion scalar K, 3 diffusion array K
                    h.a = static_cast<long>(r.below(4));
                    static const double dts[] = { 0.0, 1.0, 10.0, 1e3, 1e6 };
                    h.x = dts[r.below(5)];
                    static const double ks[] = { 0.0, 1e-5, 1e-3, 1.0 };
                    h.y = ks[r.below(4)];
                    if (h.a >= 2 && h.y == 0.0)
                        h.y = 1e-3;  // diffusivity > 0
                    h.b = static_cast<long>(r.below(3));  // area exponent 0.4 / 0.5 / 1
                    h.c = static_cast<long>(r.below(3));  // slope exponent 1 / 2 / 0.8 (1 on multi-flow graphs)
                    h.d = static_cast<long>(r.below(2));  // 1: the next update uses the eroded + uplifted surface
                    w.history.push_back(h);
                    if (h.d)
                    {
                        HOp u;
                        u.kind = H_UPDATE;
                        u.b = 1;  // take the eroded surface if one exists (else the stored field)
                        u.field = gen_field(r, n, cols, prev_field.empty() ? nullptr : &prev_field, u.a);
                        prev_field = u.field;
                        w.history.push_back(u);
                    }
                    continue;
                }
                default:
                    continue;
            }
        }
        (void) has_resolver;
    }

    // ------------------------------------------------------------------ execution
    template <class G>
    void Runner<G>::execute(const WorldSpec& w, int mode, RunOutcome& out)
    {
        const GridSpec& gs = w.grid;
        const std::string sig = ops_signature(w.ops);
        const std::string gname = grid_kind_name(gs.kind);
        auto& C = out.counters;
        bool has_resolver = false, has_parallel_router = false;
        for (auto& o : w.ops)
        {
            if (o.kind == O_PFLOOD || o.kind == O_MST)
                has_resolver = true;
            if (o.kind == O_SINGLE && o.threads > 1)
                has_parallel_router = true;
        }

        world_t main;
        main.build(gs, w.ops, w.ops.size(), true, false, false);
        const std::size_t n = main.grid->size();
        G* const shared = gs.share_grid ? main.grid : nullptr;
        if (shared)
            ++C["p.worlds_sharing_one_grid"];
        ++C[std::string("p.grid_family.") + grid_kind_name(gs.kind)];
        // adjacency from a scratch grid: the worlds' own neighbour caches must stay cold until the
        // library itself (routers, possibly worker threads) fills them
        std::vector<std::vector<std::size_t>> adj;
        {
            std::unique_ptr<G> scratch = GridMaker<G>::make(gs);
            adj = adjacency(*scratch);
        }

        // reference worlds
        std::unique_ptr<world_t> twin;  // C10: same history, sequential
        if (mode == MODE_C10)
        {
            twin = std::make_unique<world_t>();
            twin->build(gs, w.ops, w.ops.size(), true, true, false, shared);
        }
        struct Prefix
        {
            std::string name;
            bool graph, elev, elev_only_world;
            std::unique_ptr<world_t> world;
        };
        std::vector<Prefix> prefixes;  // C16
        // (names and flags of the snapshots in every mode; the prefix worlds themselves only for C16)
        for (std::size_t i = 0; i < w.ops.size(); ++i)
                if (w.ops[i].kind == O_SNAPSHOT)
                {
                    Prefix p;
                    p.name = w.ops[i].name;
                    p.graph = w.ops[i].save_graph != 0;
                    p.elev = w.ops[i].save_elev != 0;
                    bool router = false;
                    for (std::size_t k = 0; k < i; ++k)
                        if (w.ops[k].kind == O_SINGLE || w.ops[k].kind == O_MULTI)
                            router = true;
                    p.elev_only_world = !router;
                    if (mode == MODE_C16)
                    {
                        p.world = std::make_unique<world_t>();
                        // same operators (same thread counts) as the main graph, minus snapshots
                        p.world->build(gs, w.ops, i, false, false, true, shared);
                    }
                    prefixes.push_back(std::move(p));
                }

        // model state
        std::vector<uint8_t> mask;
        std::vector<std::size_t> base = main.graph->base_levels();
        std::vector<double> last_field;
        std::vector<double> eroded_field;  // surface after the last erode op (+ uplift), if any
        // long-lived eroder objects: a model run keeps one eroder per process for all its time steps and
        // changes its parameters through the setters. Two thirds of the erode operations go through these,
        // the others build a fresh eroder (declared after `main`: destroyed before the graph and the grid)
        std::unique_ptr<fs::spl_eroder<graph_t>> kept_spl;
        using kept_diff_t = std::conditional_t<fs::is_raster_grid<G>::value, fs::diffusion_adi_eroder<G>, int>;
        std::unique_ptr<kept_diff_t> kept_diff;
        std::vector<std::set<std::size_t>> base_sets;  // base-level sets seen so far
        arr_t persistent_in;                            // the caller's long-lived input array (reuse_input)
        Obs last_obs;
        std::vector<double> cur_exp(w.ops.size());
        std::vector<int> cur_method(w.ops.size()), cur_route(w.ops.size());
        for (std::size_t i = 0; i < w.ops.size(); ++i)
        {
            cur_exp[i] = w.ops[i].exponent;
            cur_method[i] = w.ops[i].mst_method;
            cur_route[i] = w.ops[i].mst_route;
        }
        std::vector<int> statuses = model_statuses(gs);
        // a second grid of the same type but another geometry, queried in between: answers must not depend on
        // what was asked of ANOTHER grid object either
        GridSpec aux_spec = gs;
        std::unique_ptr<G> aux_grid;
        std::vector<int> aux_statuses;
        if (gs.kind != G_TRIMESH && mode == MODE_C07)
        {
            aux_spec.overrides.clear();
            if (grid_is_profile(gs.kind))
                aux_spec.cols = gs.cols + 1;
            else
            {
                std::swap(aux_spec.rows, aux_spec.cols);
                std::swap(aux_spec.bs[0], aux_spec.bs[2]);
                std::swap(aux_spec.bs[1], aux_spec.bs[3]);
                std::swap(aux_spec.dx, aux_spec.dy);
                if (aux_spec.rows == aux_spec.cols)
                    aux_spec.cols += 1;
            }
            aux_grid = GridMaker<G>::make(aux_spec);
            aux_statuses = model_statuses(aux_spec);
        }
        std::size_t state_changes = 0;
        bool dirty_since_update = false;  // mask / base levels / parameters changed since the last update
        uint64_t salt = 1;

        auto all_worlds = [&](auto&& fn)
        {
            fn(main);
            if (twin)
                fn(*twin);
            for (auto& p : prefixes)
                if (p.world)
                    fn(*p.world);
        };

        auto do_update = [&](const std::vector<double>& field, bool is_repeat, int opi)
        {
            if (!domain_ok(adj, mask, base, has_resolver))
            {
                ++C["p.domain_skips"];
                return;
            }
            // the caller's array: a new object per update, or (reuse_input) one long-lived object that is
            // overwritten before each update, as a model time loop does
            arr_t in_local;
            if (gs.reuse_input)
            {
                if (persistent_in.size() != n)
                    persistent_in = main.make_array(field);
                else
                    for (std::size_t i = 0; i < n; ++i)
                        persistent_in.flat(i) = field[i];
            }
            else
                in_local = main.make_array(field);
            arr_t& in = gs.reuse_input ? persistent_in : in_local;
            arr_t in_copy = in;
            const std::size_t cache_before = main.grid->neighbors_indices_cache().cache_used();
            const arr_t& res = main.update(in);
            if (main.grid->neighbors_indices_cache().cache_used() > cache_before)
                ++C[has_parallel_router ? "p.neighbour_cache_filled_during_parallel_update" : "p.neighbour_cache_filled_during_update"];
            ++C["p.updates"];
            if (has_parallel_router)
                ++C["p.parallel_updates"];
            // C09: the input array is never modified
            for (std::size_t i = 0; i < n; ++i)
                if (dbits(in.flat(i)) != dbits(in_copy.flat(i)))
                {
                    out.violation("c09", "c09:input_modified:" + sig, "update_routes modified its input array at node " + std::to_string(i));
                    break;
                }
            Obs obs = observe(*main.graph, &res, true);
            vsim::note(10, obs_digest(obs), static_cast<uint64_t>(opi));
            // what update_routes returned must not be changed by the read-only calls made since (accumulate, basins)
            for (std::size_t i = 0; i < n; ++i)
                if (dbits(res.flat(i)) != dbits(main.last_result.flat(i)))
                {
                    out.violation("c09", "c09:returned_elevation_changed:" + sig, "the array returned by update_routes changed at node " + std::to_string(i)
                                                                                      + " after accumulate() / basins() were called");
                    break;
                }
            if (!obs.sane)
                out.violation(mode == MODE_C10 ? "c10" : "c09", "tables_insane:" + sig + ":" + gname, obs.insane);

            if (is_repeat && last_obs.valid && !dirty_since_update)
            {
                std::string d = compare_obs(obs, last_obs, CmpOpts());
                ++C["p.repeat_compared"];
                if (!d.empty())
                    out.violation("c09", "c09:repeat:" + first_word(d) + ":" + sig, "repeating update_routes with identical inputs changed the state: " + d);
            }
            // C10: the sequential twin
            if (twin)
            {
                arr_t tin = twin->make_array(field);
                const arr_t& tres = twin->update(tin);
                Obs tobs = observe(*twin->graph, &tres, true);
                CmpOpts o;
                o.donors_ignore_self = true;
                std::string d = compare_obs(obs, tobs, o);
                ++C["p.twin_compared"];
                if (!d.empty())
                    out.violation("c10", "c10:update:" + first_word(d) + ":" + (grid_has_cache(gs.kind) ? "cached" : gname),
                                  "parallel update differs from the sequential one: " + d);
            }
            // C09: stateless recomputation on a fresh world
            if (mode == MODE_C09)
            {
                world_t fresh;
                std::vector<OperatorSpec> ops = w.ops;
                for (std::size_t i = 0; i < ops.size(); ++i)
                {
                    ops[i].exponent = cur_exp[i];
                    ops[i].mst_method = cur_method[i];
                    ops[i].mst_route = cur_route[i];
                }
                // "fresh" = new graph and operators; with share_grid on the same (used, warm-cache) grid object
                fresh.build(gs, ops, ops.size(), true, false, false, shared);
                if (!mask.empty())
                    fresh.set_mask(mask);
                std::vector<std::size_t> b = base;
                std::reverse(b.begin(), b.end());  // equivalent input: same set, other order
                if (b.size() > 2)
                    std::swap(b[0], b[b.size() / 2]);
                fresh.set_base(b);
                arr_t fin = fresh.make_array(field);
                const arr_t& fres = fresh.update(fin);
                Obs fobs = observe(*fresh.graph, &fres, true);
                std::string d = compare_obs(obs, fobs, CmpOpts());
                ++C["p.fresh_compared"];
                if (state_changes >= 2)
                    out.nontrivial = true;
                if (!d.empty())
                    out.violation("c09", "c09:history:" + first_word(d) + ":" + sig,
                                  "state after this history differs from a fresh graph given the same current inputs: " + d);
            }
            // C16: snapshots against prefix worlds
            for (auto& p : prefixes)
            {
                if (!p.world)
                    continue;
                arr_t pin = p.world->make_array(field);
                const arr_t& pres = p.world->update(pin);
                if (p.graph)
                {
                    auto& snap = main.graph->graph_snapshot(p.name);
                    if (snap.size() != main.graph->size() || snap.grid_shape() != main.graph->grid_shape())
                        out.violation("c16", "c16:graph:shape", "graph snapshot '" + p.name + "' reports another size / grid shape than the graph it belongs to");
                    Obs sobs = observe(snap, nullptr, true);
                    Obs pobs = observe(*p.world->graph, nullptr, true);
                    std::string d = compare_obs(sobs, pobs, CmpOpts());
                    ++C["p.snapshot_compared"];
                    if (!d.empty())
                        out.violation("c16", "c16:graph:" + first_word(d) + ":" + (snap.impl().single_flow() ? "single" : "multi"),
                                      "graph snapshot '" + p.name + "' differs from a graph running only the preceding operators: " + d);
                }
                if (p.elev)
                {
                    const auto& es = main.graph->elevation_snapshot(p.name);
                    ++C["p.elev_snapshot_compared"];
                    for (std::size_t i = 0; i < n; ++i)
                        if (dbits(es.flat(i)) != dbits(pres.flat(i)))
                        {
                            out.violation("c16", "c16:elevation", "elevation snapshot '" + p.name + "' differs from the elevation at that point, node "
                                                                      + std::to_string(i));
                            break;
                        }
                }
                if (state_changes >= 2)
                    out.nontrivial = true;
            }
            // the caller is free to change its own array after the call: elevation snapshots are copies
            if (gs.reuse_input && !prefixes.empty() && mode == MODE_C16)
            {
                std::vector<std::vector<uint64_t>> before;
                for (auto& p : prefixes)
                {
                    std::vector<uint64_t> v;
                    if (p.elev)
                    {
                        const auto& es = main.graph->elevation_snapshot(p.name);
                        for (std::size_t i = 0; i < n; ++i)
                            v.push_back(dbits(es.flat(i)));
                    }
                    before.push_back(v);
                }
                for (std::size_t i = 0; i < n; ++i)
                    persistent_in.flat(i) = -7.0 - static_cast<double>(i);
                std::size_t k = 0;
                for (auto& p : prefixes)
                {
                    if (p.elev)
                    {
                        const auto& es = main.graph->elevation_snapshot(p.name);
                        for (std::size_t i = 0; i < n; ++i)
                            if (dbits(es.flat(i)) != before[k][i])
                            {
                                out.violation("c16", "c16:elevation_snapshot_aliases_input", "elevation snapshot '" + p.name + "' changed when the caller overwrote its own input array");
                                break;
                            }
                        ++C["p.elev_snapshot_checked_after_input_overwrite"];
                    }
                    ++k;
                }
            }
            last_obs = obs;
            last_field = field;
            dirty_since_update = false;
            ++state_changes;
        };

        for (std::size_t opi = 0; opi < w.history.size(); ++opi)
        {
            const HOp& h = w.history[opi];
            g_current_op = static_cast<int>(opi);
            vsim::note(11, static_cast<uint64_t>(h.kind), opi);
            const uint64_t steps_before = vsim::now();
            struct StepMeter
            {
                std::map<std::string, uint64_t>& c;
                uint64_t t0;
                int kind;
                ~StepMeter()
                {
                    const uint64_t used = vsim::now() - t0;
                    uint64_t& mx = c[std::string("max.steps_per_call.") + hop_name(kind)];
                    if (used > mx)
                        mx = used;
                }
            } meter{ C, steps_before, h.kind };
            switch (h.kind)
            {
                case H_UPDATE:
                    if (h.b == 1 && eroded_field.size() == n)
                    {
                        ++C["p.updates_with_eroded_surface"];
                        do_update(eroded_field, false, static_cast<int>(opi));
                    }
                    else if (h.field.size() == n)
                        do_update(h.field, false, static_cast<int>(opi));
                    break;
                case H_ERODE:
                {
                    if (!main.has_result || dirty_since_update)
                        break;
                    arr_t elev = main.last_result;
                    const double dt = h.x, kc = h.y;
                    static const double ms[] = { 0.4, 0.5, 1.0 };
                    static const double ns[] = { 1.0, 2.0, 0.8 };
                    const double m_exp = ms[h.b % 3];
                    double n_exp = main.graph->single_flow() ? ns[h.c % 3] : 1.0;
                    // the Newton iteration of the non-linear case was seen not to terminate for extreme
                    // K * dt products (outside the claimed properties): keep those for the linear case only
                    bool has_mst = false;
                    for (auto& o : w.ops)
                        if (o.kind == O_MST)
                            has_mst = true;
                    // (also seen on jittered meshes, where obtuse triangles give negative cell areas and
                    // NaN factors: comparisons with NaN never end the iteration)
                    if (kc * dt > 1.0 || has_mst || gs.kind == G_TRIMESH)
                        n_exp = 1.0;
                    std::vector<double> ero(n, 0.0);
                    bool done = false;
                    const bool keep_eroder = (h.b + h.c) % 3 != 0;  // derived from the operation's own arguments: no extra draw
                    if (h.a < 2)
                    {
                        arr_t area = main.graph->accumulate(1.0);
                        arr_t karr = arr_t::from_shape(main.grid->shape());
                        for (std::size_t i = 0; i < n; ++i)
                            karr.flat(i) = kc * (1.0 + static_cast<double>(i % 3));
                        if (keep_eroder)
                        {
                            if (!kept_spl)
                            {
                                if (h.a == 0)
                                    kept_spl = std::make_unique<fs::spl_eroder<graph_t>>(*main.graph, kc, m_exp, n_exp, 1e-3);
                                else
                                    kept_spl = std::make_unique<fs::spl_eroder<graph_t>>(*main.graph, karr, m_exp, n_exp, 1e-3);
                            }
                            else
                            {
                                if (h.a == 0)
                                    kept_spl->set_k_coef(kc);
                                else
                                    kept_spl->set_k_coef(karr);
                                kept_spl->set_area_exp(m_exp);
                                kept_spl->set_slope_exp(n_exp);
                                ++C["p.erode_on_reused_eroder"];
                            }
                            const auto& e = kept_spl->erode(elev, area, dt);
                            for (std::size_t i = 0; i < n; ++i)
                                ero[i] = e.flat(i);
                        }
                        else if (h.a == 0)
                        {
                            fs::spl_eroder<graph_t> er(*main.graph, kc, m_exp, n_exp, 1e-3);
                            const auto& e = er.erode(elev, area, dt);
                            for (std::size_t i = 0; i < n; ++i)
                                ero[i] = e.flat(i);
                        }
                        else
                        {
                            fs::spl_eroder<graph_t> er(*main.graph, karr, m_exp, n_exp, 1e-3);
                            const auto& e = er.erode(elev, area, dt);
                            for (std::size_t i = 0; i < n; ++i)
                                ero[i] = e.flat(i);
                        }
                        done = true;
                        ++C["p.spl_erode"];
                    }
                    else
                    {
                        if constexpr (fs::is_raster_grid<G>::value)
                        {
                            if (gs.rows >= 3 && gs.cols >= 3)
                            {
                                if (keep_eroder)
                                {
                                    arr_t karr = arr_t::from_shape(main.grid->shape());
                                    for (std::size_t i = 0; i < n; ++i)
                                        karr.flat(i) = kc * (1.0 + static_cast<double>(i % 4));
                                    if (!kept_diff)
                                    {
                                        if (h.a == 2)
                                            kept_diff = std::make_unique<kept_diff_t>(*main.grid, kc);
                                        else
                                            kept_diff = std::make_unique<kept_diff_t>(*main.grid, karr);
                                    }
                                    else
                                    {
                                        if (h.a == 2)
                                            kept_diff->set_k_coef(kc);
                                        else
                                            kept_diff->set_k_coef(karr);
                                        ++C["p.erode_on_reused_eroder"];
                                    }
                                    const auto& e = kept_diff->erode(elev, dt);
                                    for (std::size_t i = 0; i < n; ++i)
                                        ero[i] = e.flat(i);
                                }
                                else if (h.a == 2)
                                {
                                    fs::diffusion_adi_eroder<G> er(*main.grid, kc);
                                    const auto& e = er.erode(elev, dt);
                                    for (std::size_t i = 0; i < n; ++i)
                                        ero[i] = e.flat(i);
                                }
                                else
                                {
                                    arr_t karr = arr_t::from_shape(main.grid->shape());
                                    for (std::size_t i = 0; i < n; ++i)
                                        karr.flat(i) = kc * (1.0 + static_cast<double>(i % 4));
                                    fs::diffusion_adi_eroder<G> er(*main.grid, karr);
                                    const auto& e = er.erode(elev, dt);
                                    for (std::size_t i = 0; i < n; ++i)
                                        ero[i] = e.flat(i);
                                }
                                done = true;
                                ++C["p.diffusion_erode"];
                            }
                        }
                    }
                    if (done)
                    {
                        uint64_t dg = 0;
                        bool finite = true;
                        eroded_field.resize(n);
                        for (std::size_t i = 0; i < n; ++i)
                        {
                            dg = vsim::mix64(dg, dbits(ero[i]));
                            double v = elev.flat(i) - ero[i] + 0.125;
                            if (!std::isfinite(v))
                                finite = false;
                            eroded_field[i] = v;
                        }
                        if (!finite)
                            eroded_field.clear();  // stay inside the documented domain (finite elevations)
                        vsim::note(13, dg, opi);
                    }
                    break;
                }
                case H_REPEAT:
                    if (!last_field.empty())
                    {
                        ++C["p.repeats"];
                        do_update(last_field, true, static_cast<int>(opi));
                    }
                    break;
                case H_SET_MASK:
                    if (h.mask.size() == n)
                    {
                        mask = h.mask;
                        all_worlds([&](world_t& x) { x.set_mask(mask); });
                        ++state_changes;
                        dirty_since_update = true;
                        ++C["p.set_mask"];
                    }
                    break;
                case H_SET_BASE:
                {
                    bool ok = !h.levels.empty();
                    for (auto b : h.levels)
                        if (b >= n)
                            ok = false;
                    if (ok)
                    {
                        std::set<std::size_t> a(h.levels.begin(), h.levels.end()), b0(base.begin(), base.end());
                        if (a != b0)
                            for (auto& old : base_sets)
                                if (old == a)
                                {
                                    ++C["p.restored_earlier_base_levels"];
                                    break;
                                }
                        base_sets.push_back(b0);
                        base = h.levels;
                        all_worlds([&](world_t& x) { x.set_base(base); });
                        ++state_changes;
                        dirty_since_update = true;
                        ++C["p.set_base"];
                        (void) a;
                        (void) b0;
                    }
                    break;
                }
                case H_PARAM:
                    if (h.a >= 0 && static_cast<std::size_t>(h.a) < w.ops.size())
                    {
                        std::size_t i = static_cast<std::size_t>(h.a);
                        cur_exp[i] = h.x;
                        cur_method[i] = static_cast<int>(h.b);
                        cur_route[i] = static_cast<int>(h.c);
                        all_worlds([&](world_t& x) { x.set_param(static_cast<int>(i), h.x, static_cast<int>(h.b), static_cast<int>(h.c)); });
                        ++state_changes;
                        dirty_since_update = true;
                        ++C["p.param_changes"];
                    }
                    break;
                case H_ACCUMULATE:
                {
                    if (!main.has_result)
                        break;
                    auto run_acc = [&](world_t& x) -> arr_t
                    {
                        arr_t acc = arr_t::from_shape(x.grid->shape());
                        switch (h.a)
                        {
                            case 0:
                                return x.graph->accumulate(x.make_array(h.field));
                            case 1:
                                x.graph->accumulate(acc, x.make_array(h.field));
                                return acc;
                            case 2:
                                return x.graph->accumulate(h.x);
                            default:
                                x.graph->accumulate(acc, h.x);
                                return acc;
                        }
                    };
                    if ((h.a < 2) && h.field.size() != n)
                        break;
                    arr_t a = run_acc(main);
                    ++C["p.accumulate"];
                    if (twin && twin->has_result)
                    {
                        arr_t b = run_acc(*twin);
                        for (std::size_t i = 0; i < n; ++i)
                            if (dbits(a.flat(i)) != dbits(b.flat(i)))
                            {
                                out.violation("c10", "c10:accumulate:" + gname, "accumulate after a parallel update differs from the sequential twin at node " + std::to_string(i));
                                break;
                            }
                    }
                    break;
                }
                case H_BASINS:
                {
                    if (!main.has_result || !main.graph->single_flow())
                        break;
                    auto labels = main.graph->basins();
                    ++C["p.basins_calls"];
                    if (dirty_since_update)
                    {
                        // mask / base levels changed after the routes were computed: stale combination,
                        // outside what the property talks about (only executed, for memory safety)
                        ++C["p.basins_on_stale_routes"];
                        break;
                    }
                    auto judge = [&](graph_t& g, const decltype(labels)& labels) -> std::string
                    {
                    // independent partition model: follow receivers to the root
                    const auto& im = g.impl();
                    const std::size_t nomark = std::numeric_limits<std::size_t>::max();
                    std::vector<std::size_t> root(n);
                    bool cyc = false;
                    for (std::size_t i = 0; i < n; ++i)
                    {
                        std::size_t u = i, steps = 0;
                        while (im.receivers()(u, 0) != u && steps <= n)
                        {
                            u = im.receivers()(u, 0);
                            ++steps;
                        }
                        if (steps > n)
                            cyc = true;
                        root[i] = u;
                    }
                    if (cyc)
                        return std::string();  // cycles are C01's business
                    auto is_masked = [&](std::size_t i) { return !mask.empty() && mask[i]; };
                    std::vector<std::size_t> pos(n, 0);
                    for (std::size_t k = 0; k < n; ++k)
                        if (im.dfs_indices()(k) < n)
                            pos[im.dfs_indices()(k)] = k;
                    std::vector<std::size_t> roots;
                    for (std::size_t i = 0; i < n; ++i)
                        if (root[i] == i && !is_masked(i))
                            roots.push_back(i);
                    std::sort(roots.begin(), roots.end(), [&](std::size_t a, std::size_t b) { return pos[a] < pos[b]; });
                    std::map<std::size_t, std::size_t> rank;
                    for (std::size_t k = 0; k < roots.size(); ++k)
                        rank[roots[k]] = k;
                    std::string bad;
                    std::set<std::size_t> distinct;
                    for (std::size_t i = 0; i < n && bad.empty(); ++i)
                    {
                        std::size_t lab = labels.flat(i);
                        if (is_masked(i))
                        {
                            if (lab != nomark)
                                bad = "masked node " + std::to_string(i) + " has label " + std::to_string(lab);
                            continue;
                        }
                        distinct.insert(lab);
                        std::size_t rc = im.receivers()(i, 0);
                        if (!is_masked(rc) && labels.flat(rc) != lab)
                            bad = "node " + std::to_string(i) + " and its receiver have different labels";
                        else if (!is_masked(root[i]) && rank.count(root[i]) && rank[root[i]] != lab)
                            bad = "node " + std::to_string(i) + " has label " + std::to_string(lab) + ", its outlet ranks " + std::to_string(rank[root[i]])
                                  + " in bottom-up order";
                    }
                    if (bad.empty() && distinct.size() != roots.size())
                        bad = std::to_string(distinct.size()) + " distinct labels for " + std::to_string(roots.size()) + " unmasked outlets";
                    if (bad.empty())
                    {
                        std::vector<std::size_t> pits = g.impl_ptr()->pits();
                        std::set<std::size_t> bset(base.begin(), base.end());
                        std::vector<std::size_t> want;
                        for (auto rt : roots)
                            if (!bset.count(rt))
                                want.push_back(rt);
                        std::sort(pits.begin(), pits.end());
                        std::sort(want.begin(), want.end());
                        if (pits != want)
                            bad = "pits() is not the set of outlets that are not base levels (" + std::to_string(pits.size()) + " vs "
                                  + std::to_string(want.size()) + ")";
                    }
                        return bad;
                    };
                    std::string bad = judge(*main.graph, labels);
                    // snapshot graphs are single-direction flow graphs too: the same holds for their basins()
                    if (bad.empty())
                        for (auto& p : prefixes)
                        {
                            if (!p.graph)
                                continue;
                            graph_t& snap = main.graph->graph_snapshot(p.name);
                            if (!snap.impl().single_flow())
                                continue;
                            auto slabels = snap.basins();
                            std::string sb = judge(snap, slabels);
                            ++C["p.basins_on_snapshot_judged"];
                            if (!sb.empty())
                            {
                                bad = "snapshot '" + p.name + "': " + sb;
                                break;
                            }
                        }
                    if (state_changes >= 2)
                        out.nontrivial = true;
                    if (!bad.empty())
                        out.violation("c19", "c19:labels:" + std::string(mask.empty() ? "nomask" : "mask"), bad);
                    break;
                }
                case H_KERNEL:
                {
                    if (!main.has_result)
                        break;
                    ++salt;
                    const int nthreads = h.d == 2 ? 1 : static_cast<int>(std::max<long>(1, std::min<long>(16, h.a)));
                    const bool on_snap = !h.name.empty();
                    bool snap_ok = false;
                    for (auto& p : prefixes)
                        if (p.name == h.name && p.graph)
                            snap_ok = true;
                    if (on_snap && !snap_ok)
                        break;
                    graph_t& target = on_snap ? main.graph->graph_snapshot(h.name) : *main.graph;
                    // kernels walk the tables: only on sane tables (an insane snapshot is reported by C16's comparison)
                    {
                        Obs chk = observe(target, nullptr, false, false);
                        if (!chk.sane)
                        {
                            out.violation("c16", std::string("c16:kernel_tables:") + first_word(chk.insane), "tables of graph '" + h.name + "' unusable for kernels: " + chk.insane);
                            break;
                        }
                    }
                    KernelRun<graph_t> kr;
                    kernel_accounting() = KernelAccounting();
                    kr.prepare(target, nthreads, static_cast<int>(h.b), static_cast<int>(h.c), static_cast<int>(h.d), salt);
                    kr.run(target);
                    ++C[nthreads > 1 ? "p.parallel_kernels" : "p.sequential_kernels"];
                    if (nthreads > 1)
                    {
                        const auto& lv = h.d ? target.impl().bfs_levels() : target.impl().any_order_levels();
                        for (std::size_t k = 1; k < lv.size(); ++k)
                        {
                            const std::size_t sz = lv(k) - lv(k - 1);
                            if (static_cast<long>(sz) < h.c)
                                ++C["p.kernel_level_ran_inline"];
                            else if (sz < static_cast<std::size_t>(nthreads))
                                ++C["p.kernel_level_smaller_than_pool"];
                            else
                                ++C["p.kernel_level_dispatched"];
                        }
                    }
                    uint64_t dg = 0;
                    for (std::size_t i = 0; i < n; ++i)
                        dg = vsim::mix64(dg, dbits(kr.ctx.out[i]));
                    vsim::note(12, dg, opi);
                    for (std::size_t i = 0; i < n; ++i)
                        if (kr.ctx.calls[i] != 1)
                        {
                            out.violation(on_snap ? "c16" : "c10", std::string(on_snap ? "c16" : "c10") + ":kernel_calls",
                                          "kernel executed " + std::to_string(kr.ctx.calls[i]) + " times on node " + std::to_string(i));
                            break;
                        }
                    // reference: sequential execution on the twin (C10) or on the prefix world (C16)
                    {
                        KernelAccounting& ka = kernel_accounting();
                        if (ka.live != 0)
                            out.violation(on_snap ? "c16" : "c10", "kernel:node_data_leak", "node data objects created and not freed by apply_kernel: " + std::to_string(ka.live));
                        if (kr.kernel.node_data_init && ka.inits != ka.created)
                            out.violation(on_snap ? "c16" : "c10", "kernel:node_data_init_count", "node_data_init called " + std::to_string(ka.inits) + " times for "
                                                                                                      + std::to_string(ka.created) + " node data objects");
                        ka = KernelAccounting();
                    }
                    graph_t* ref = nullptr;
                    if (!on_snap && twin && twin->has_result)
                        ref = twin->graph.get();
                    // no sequential twin available: the same graph, applied sequentially, is the reference
                    if (!on_snap && !twin && nthreads > 1)
                        ref = &target;
                    if (on_snap)
                        for (auto& p : prefixes)
                            if (p.name == h.name && p.graph && p.world && p.world->has_result)
                                ref = p.world->graph.get();
                    if (on_snap && !ref && nthreads > 1)
                        ref = &target;
                    if (ref)
                    {
                        KernelRun<graph_t> rr;
                        rr.prepare(*ref, 1, 0, 0, static_cast<int>(h.d), salt);
                        rr.run(*ref);
                        kernel_accounting() = KernelAccounting();
                        for (std::size_t i = 0; i < n; ++i)
                            if (dbits(rr.ctx.out[i]) != dbits(kr.ctx.out[i]))
                            {
                                if (on_snap)
                                    out.violation("c16", "c16:kernel_output", "kernel applied through snapshot '" + h.name + "' differs from the prefix graph at node " + std::to_string(i));
                                else
                                    out.violation("c10", "c10:kernel_output:" + std::string(h.d ? "breadth" : "any"),
                                                  "parallel kernel output differs from the sequential one at node " + std::to_string(i));
                                break;
                            }
                        ++C["p.kernel_compared"];
                        if (nthreads > 1)
                            out.nontrivial = true;
                    }
                    break;
                }
                case H_QUERY:
                {
                    if (gs.kind == G_TRIMESH || h.a < 0 || static_cast<std::size_t>(h.a) >= n)
                        break;
                    const std::size_t idx = static_cast<std::size_t>(h.a);
                    G& grid = *main.grid;
                    // geometry from the model; "the neighbour's own status" is what the grid itself reports for
                    // that node (the composition of node statuses is C17's subject, not C07's)
                    std::vector<MNeighbor> model = model_neighbors(gs, statuses, idx);
                    for (auto& mn : model)
                        mn.status = static_cast<int>(grid.nodes_status(mn.idx));
                    std::vector<MNeighbor> got;
                    std::string bad;
                    ++C["p.queries"];
                    if (aux_grid)
                    {
                        // same flat index on the other grid first; its answer is judged against its own geometry
                        const std::size_t aidx = idx % aux_grid->size();
                        auto anb = aux_grid->neighbors(aidx);
                        auto aind = aux_grid->neighbors_indices(aidx);
                        std::vector<MNeighbor> am = model_neighbors(aux_spec, aux_statuses, aidx);
                        std::vector<std::size_t> a1, a2;
                        for (auto& q : am)
                            a1.push_back(q.idx);
                        for (auto& q : anb)
                            a2.push_back(q.idx);
                        std::sort(a1.begin(), a1.end());
                        std::sort(a2.begin(), a2.end());
                        bool same = a1 == a2 && aind.size() == anb.size();
                        for (std::size_t k = 0; same && k < anb.size(); ++k)
                            same = aind[k] == anb[k].idx;
                        if (!same)
                            bad = "second grid of the same type (other geometry): neighbours of node " + std::to_string(aidx) + " differ from its geometry";
                        ++C["p.queries_on_second_grid"];
                    }
                    // the library's own answers through the chosen accessor
                    if (!bad.empty())
                    {
                        out.violation("c07", "c07:" + gname + ":second_grid", bad);
                        break;
                    }
                    std::size_t cnt = grid.neighbors_count(idx);
                    auto dists = grid.neighbors_distances(idx);
                    typename G::neighbors_indices_type ind;
                    if (h.b % 2 == 0)
                        ind = grid.neighbors_indices(idx);
                    else
                    {
                        ind.resize({ static_cast<std::size_t>(h.c) });  // stale size
                        grid.neighbors_indices(idx, ind);
                    }
                    typename G::neighbors_type nb;
                    if (h.b % 3 == 0)
                        nb = grid.neighbors(idx);
                    else
                    {
                        nb.resize(static_cast<std::size_t>(h.c));
                        grid.neighbors(idx, nb);
                    }
                    {
                        // results held by the caller must survive a later query of another node
                        std::vector<std::size_t> ind_copy(ind.begin(), ind.end());
                        std::vector<uint64_t> dist_copy;
                        for (auto v : dists)
                            dist_copy.push_back(dbits(v));
                        typename G::neighbors_type nb_copy = nb;
                        const std::size_t other = (idx + 1 + static_cast<std::size_t>(h.c)) % n;
                        // whatever type the accessors return (an owning array today), a user may keep it in an
                        // `auto` variable across later look-ups
                        auto held_ind = grid.neighbors_indices(idx);
                        auto held_dist = grid.neighbors_distances(idx);
                        auto held_nb = grid.neighbors(idx);
                        auto other_ind = grid.neighbors_indices(other);
                        auto other_nb = grid.neighbors(other);
                        auto other_d = grid.neighbors_distances(other);
                        (void) other_ind;
                        (void) other_nb;
                        (void) other_d;
                        bool same = ind_copy.size() == ind.size() && dist_copy.size() == dists.size() && nb_copy.size() == nb.size();
                        for (std::size_t k = 0; same && k < ind_copy.size(); ++k)
                            same = ind_copy[k] == ind[k];
                        for (std::size_t k = 0; same && k < dist_copy.size(); ++k)
                            same = dist_copy[k] == dbits(dists[k]);
                        for (std::size_t k = 0; same && k < nb_copy.size(); ++k)
                            same = nb_copy[k] == nb[k];
                        same = same && held_ind.size() == ind_copy.size() && held_dist.size() == dist_copy.size() && held_nb.size() == nb_copy.size();
                        for (std::size_t k = 0; same && k < ind_copy.size(); ++k)
                            same = ind_copy[k] == held_ind[k] && dist_copy[k] == dbits(held_dist[k]) && nb_copy[k] == held_nb[k];
                        if (!same)
                            bad = "a result held by the caller changed when another node was queried";
                    }
                    if (!bad.empty())
                        ;
                    else if (ind.size() != cnt || nb.size() != cnt || dists.size() != cnt)
                        bad = "accessors disagree on the number of neighbours";
                    for (std::size_t k = 0; k < cnt && bad.empty(); ++k)
                    {
                        if (nb[k].idx != ind[k] || dbits(nb[k].distance) != dbits(dists[k]))
                            bad = "index/distance/struct accessors disagree at position " + std::to_string(k);
                        got.push_back({ nb[k].idx, nb[k].distance, static_cast<int>(nb[k].status) });
                    }
                    if constexpr (G::is_structured() && G::container_ndims() == 2)
                    {
                        if (bad.empty() && h.b >= 4)
                        {
                            std::size_t rr = idx / gs.cols, cc = idx % gs.cols;
                            // by-value overloads or the output-container overloads with a stale container
                            // (size and content left over from "another node")
                            typename G::neighbors_raster_type rnb;
                            typename G::neighbors_indices_raster_type rind;
                            if (h.b % 2 == 0)
                            {
                                rnb = grid.neighbors(rr, cc);
                                rind = grid.neighbors_indices(rr, cc);
                            }
                            else
                            {
                                rnb.resize(static_cast<std::size_t>(h.c), fs::raster_neighbor{ 0, 0, 0, -1.0, fs::node_status::core });
                                rind.resize(static_cast<std::size_t>(h.c), { 0, 0 });
                                grid.neighbors(rr, cc, rnb);
                                grid.neighbors_indices(rr, cc, rind);
                                ++C["p.rowcol_out_container_queries"];
                            }
                            if (rnb.size() != cnt || rind.size() != cnt)
                                bad = "(row, col) accessors disagree on the number of neighbours";
                            for (std::size_t k = 0; k < cnt && bad.empty(); ++k)
                                if (rnb[k].flatten_idx != nb[k].idx || rnb[k].row * gs.cols + rnb[k].col != nb[k].idx || rind[k].first * gs.cols + rind[k].second != nb[k].idx
                                    || dbits(rnb[k].distance) != dbits(nb[k].distance) || rnb[k].status != nb[k].status)
                                    bad = "(row, col) accessors disagree with the flat ones at position " + std::to_string(k);
                            ++C["p.rowcol_queries"];
                        }
                    }
                    if (bad.empty())
                    {
                        std::vector<MNeighbor> a = model, b = got;
                        std::sort(a.begin(), a.end());
                        std::sort(b.begin(), b.end());
                        if (a.size() != b.size())
                            bad = "node " + std::to_string(idx) + ": " + std::to_string(b.size()) + " neighbours, geometry says " + std::to_string(a.size());
                        for (std::size_t k = 0; k < a.size() && bad.empty(); ++k)
                        {
                            if (a[k].idx != b[k].idx)
                                bad = "node " + std::to_string(idx) + ": neighbour set differs from the geometry";
                            else if (std::fabs(a[k].distance - b[k].distance) > 1e-12 * std::max(1.0, std::fabs(a[k].distance)))
                                bad = "node " + std::to_string(idx) + ": distance to " + std::to_string(a[k].idx) + " is not the Euclidean step length";
                            else if (a[k].status != b[k].status)
                                bad = "node " + std::to_string(idx) + ": status reported for neighbour " + std::to_string(a[k].idx) + " is not its own status";
                        }
                        // symmetry on the answers actually returned
                        for (std::size_t k = 0; k < got.size() && bad.empty(); ++k)
                        {
                            auto back = grid.neighbors(got[k].idx);
                            bool found = false;
                            for (auto& q : back)
                                if (q.idx == idx && std::fabs(q.distance - got[k].distance) <= 1e-12 * std::max(1.0, got[k].distance))
                                    found = true;
                            if (!found)
                                bad = "neighbour relation not symmetric between " + std::to_string(idx) + " and " + std::to_string(got[k].idx);
                        }
                    }
                    if (state_changes + C["p.queries"] >= 3)
                        out.nontrivial = true;
                    if (!bad.empty())
                        out.violation("c07", "c07:" + gname + ":" + first_word(bad), bad);
                    break;
                }
                case H_REFUSED:
                {
                    ++C["f.refused_call"];
                    Obs before;
                    if (main.has_result)
                        before = observe(*main.graph, &main.last_result, false);
                    bool threw = false;
                    std::string what = "wrong-shape mask";
                    if (h.a == 0)
                    {
                        try
                        {
                            xt::xarray<bool> m = xt::xarray<bool>::from_shape({ n + 1, std::size_t(3) });
                            main.graph->set_mask(m);
                        }
                        catch (const std::runtime_error&)
                        {
                            threw = true;
                        }
                    }
                    else
                    {
                        bool ok = false;
                        for (auto& p : prefixes)
                            if (p.name == h.name && p.graph)
                                ok = true;
                        if (!ok)
                        {
                            --C["f.refused_call"];
                            break;
                        }
                        graph_t& snap = main.graph->graph_snapshot(h.name);
                        Obs sb;
                        if (main.has_result)
                            sb = observe(snap, nullptr, false);
                        try
                        {
                            if (h.a == 1)
                            {
                                what = "update_routes on a snapshot";
                                arr_t f = main.make_array(std::vector<double>(n, 1.0));
                                snap.update_routes(f);
                            }
                            else if (h.a == 2)
                            {
                                what = "set_mask on a snapshot";
                                xt::xarray<bool> m = xt::xarray<bool>::from_shape(main.grid->shape());
                                m.fill(true);
                                snap.set_mask(m);
                            }
                            else
                            {
                                what = "set_base_levels on a snapshot";
                                snap.set_base_levels(std::vector<std::size_t>{ 0 });
                            }
                        }
                        catch (const std::runtime_error&)
                        {
                            threw = true;
                        }
                        if (main.has_result && sb.sane)
                        {
                            Obs sa = observe(snap, nullptr, false);
                            std::string d = compare_obs(sb, sa, CmpOpts());
                            if (!d.empty())
                                out.violation("c16", "c16:refused_changed_snapshot", what + " changed the snapshot: " + d);
                        }
                    }
                    if (!threw)
                        out.violation(h.a == 0 ? "c09" : "c16", std::string(h.a == 0 ? "c09" : "c16") + ":not_refused:" + std::to_string(h.a), what + " was not refused with an error");
                    if (main.has_result && before.sane)
                    {
                        Obs after = observe(*main.graph, &main.last_result, false);
                        std::string d = compare_obs(before, after, CmpOpts());
                        if (!d.empty())
                            out.violation("c09", "c09:refused_left_trace", what + " (refused) changed the graph: " + d);
                    }
                    break;
                }
                default:
                    break;
            }
            if (!out.cls.empty() && out.cls != "")
            {
                // stop the history at the first violation (objects are destroyed normally below)
                break;
            }
        }
        g_current_op = static_cast<int>(w.history.size());
        if (mode == MODE_C10 && (C["p.parallel_updates"] > 0 || C["p.parallel_kernels"] > 0))
            out.nontrivial = true;
        if (mode == MODE_C08 && state_changes >= 2)
            out.nontrivial = true;
        // destruction order: graphs before grids (World members are destroyed in reverse order)
    }
}
