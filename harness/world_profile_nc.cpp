// world harness instantiation for one grid family
#include "world.hpp"
namespace vw
{
    template class Runner<profile_nc_grid>;
    IRunner* make_runner_profile_nc()
    {
        return new Runner<profile_nc_grid>(G_PROFILE_NC);
    }
}
