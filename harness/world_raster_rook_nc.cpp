// world harness instantiation for one grid family
#include "world.hpp"
namespace vw
{
    template class Runner<rook_nc_grid>;
    IRunner* make_runner_raster_rook_nc()
    {
        return new Runner<rook_nc_grid>(G_RASTER_ROOK_NC);
    }
}
