// world harness instantiation for one grid family
#include "world.hpp"
namespace vw
{
    template class Runner<bishop_nc_grid>;
    IRunner* make_runner_raster_bishop_nc()
    {
        return new Runner<bishop_nc_grid>(G_RASTER_BISHOP_NC);
    }
}
