// World harness, part 1: library includes, operator handles (friend seam), grid construction,
// independent geometric model of structured-grid neighbourhoods.
#pragma once
#include <algorithm>
#include <array>
#include <cassert>
#include <cmath>
#include <map>
#include <memory>
#include <mutex>
#include <set>
#include <string>
#include <vector>

#define FASTSCAPELIB_VERIF_HOOKS
#include "fastscapelib/flow/flow_graph.hpp"
#include "fastscapelib/flow/flow_router.hpp"
#include "fastscapelib/flow/flow_snapshot.hpp"
#include "fastscapelib/flow/sink_resolver.hpp"
#include "fastscapelib/grid/profile_grid.hpp"
#include "fastscapelib/grid/raster_grid.hpp"
#include "fastscapelib/grid/trimesh.hpp"
#include "fastscapelib/eroders/spl.hpp"
#include "fastscapelib/eroders/diffusion_adi.hpp"

#include "common.hpp"
#include "world_spec.hpp"

namespace fs = fastscapelib;

namespace vw
{
    // one operator object, kept by the harness so that parameters can be changed between updates
    struct OpHandle
    {
        int kind = O_SINGLE;
        std::shared_ptr<fs::single_flow_router> single;
        std::shared_ptr<fs::multi_flow_router> multi;
        std::shared_ptr<fs::pflood_sink_resolver> pflood;
        std::shared_ptr<fs::mst_sink_resolver> mst;
        std::shared_ptr<fs::flow_snapshot> snap;
    };
    using OpHandles = std::vector<OpHandle>;

    inline OpHandle make_handle(const OperatorSpec& s, bool force_sequential)
    {
        OpHandle h;
        h.kind = s.kind;
        switch (s.kind)
        {
            case O_SINGLE:
                h.single = (s.threads > 1 && !force_sequential) ? std::make_shared<fs::single_flow_router>(s.threads)
                                                                : std::make_shared<fs::single_flow_router>();
                break;
            case O_MULTI:
                h.multi = std::make_shared<fs::multi_flow_router>(s.exponent);
                break;
            case O_PFLOOD:
                h.pflood = std::make_shared<fs::pflood_sink_resolver>();
                break;
            case O_MST:
                h.mst = std::make_shared<fs::mst_sink_resolver>(s.mst_method ? fs::mst_method::boruvka : fs::mst_method::kruskal,
                                                                s.mst_route ? fs::mst_route_method::carve : fs::mst_route_method::basic);
                break;
            case O_SNAPSHOT:
                h.snap = std::make_shared<fs::flow_snapshot>(s.name, s.save_graph != 0, s.save_elev != 0);
                break;
        }
        return h;
    }
}

namespace fastscapelib
{
    // The library declares this function a friend of flow_operator_sequence for bindings that
    // cannot use the variadic constructor (python/src/flow_graph.hpp defines it for py::list).
    // The harness defines it for its own handle list: an existing seam, no hook needed.
    template <class FG, class OPs>
    flow_operator_sequence<FG> make_flow_operator_sequence(OPs&& ops)
    {
        flow_operator_sequence<FG> seq;
        for (const vw::OpHandle& h : ops)
        {
            switch (h.kind)
            {
                case vw::O_SINGLE:
                    seq.add_operator(std::shared_ptr<single_flow_router>(h.single));
                    break;
                case vw::O_MULTI:
                    seq.add_operator(std::shared_ptr<multi_flow_router>(h.multi));
                    break;
                case vw::O_PFLOOD:
                    seq.add_operator(std::shared_ptr<pflood_sink_resolver>(h.pflood));
                    break;
                case vw::O_MST:
                    seq.add_operator(std::shared_ptr<mst_sink_resolver>(h.mst));
                    break;
                case vw::O_SNAPSHOT:
                    seq.add_operator(std::shared_ptr<flow_snapshot>(h.snap));
                    break;
            }
        }
        return seq;
    }
}

namespace vw
{
    using rook_grid = fs::raster_grid<fs::xt_selector, fs::raster_connect::rook>;
    using queen_grid = fs::raster_grid<fs::xt_selector, fs::raster_connect::queen>;
    using bishop_grid = fs::raster_grid<fs::xt_selector, fs::raster_connect::bishop>;
    using queen_nc_grid = fs::raster_grid<fs::xt_selector, fs::raster_connect::queen, fs::neighbors_no_cache<8>>;
    using rook_nc_grid = fs::raster_grid<fs::xt_selector, fs::raster_connect::rook, fs::neighbors_no_cache<4>>;
    using profile_grid = fs::profile_grid<>;
    using bishop_nc_grid = fs::raster_grid<fs::xt_selector, fs::raster_connect::bishop, fs::neighbors_no_cache<4>>;
    using profile_nc_grid = fs::profile_grid<fs::xt_selector, fs::neighbors_no_cache<2>>;
    using trimesh_grid = fs::trimesh;

    // ------------------------------------------------------------------ mesh generation
    struct MeshData
    {
        std::vector<std::array<double, 2>> points;
        std::vector<std::array<std::size_t, 3>> triangles;
    };

    inline MeshData make_mesh(const GridSpec& g)
    {
        MeshData m;
        vsim::Rng r;
        r.seed(g.mesh_seed * 7919ULL + 17);
        const std::size_t nx = g.mesh_nx, ny = g.mesh_ny;
        for (std::size_t j = 0; j < ny; ++j)
            for (std::size_t i = 0; i < nx; ++i)
            {
                double jx = (r.unit() - 0.5) * 0.6, jy = (r.unit() - 0.5) * 0.6;
                m.points.push_back({ (static_cast<double>(i) + jx) * 1.5, (static_cast<double>(j) + jy) * 0.8 });
            }
        // points that no triangle references (isolated nodes), appended after the lattice
        for (int e = 0; e < g.mesh_extra; ++e)
            m.points.push_back({ 1.5 * static_cast<double>(nx) + 2.0 + static_cast<double>(e), 0.8 * static_cast<double>(ny) + 1.0 });
        // holes: isolated interior cells (never two adjacent ones, never touching the outer ring)
        std::set<std::size_t> holes;
        for (int h = 0; h < g.mesh_holes && nx >= 4 && ny >= 4; ++h)
        {
            std::size_t ci = 1 + r.below(nx - 3), cj = 1 + r.below(ny - 3);
            bool ok = true;
            for (std::size_t c : holes)
            {
                long hi = static_cast<long>(c % (nx - 1)), hj = static_cast<long>(c / (nx - 1));
                if (std::labs(hi - static_cast<long>(ci)) <= 1 && std::labs(hj - static_cast<long>(cj)) <= 1)
                    ok = false;
            }
            if (ok)
                holes.insert(cj * (nx - 1) + ci);
        }
        for (std::size_t j = 0; j + 1 < ny; ++j)
            for (std::size_t i = 0; i + 1 < nx; ++i)
            {
                bool flip = r.chance(0.5);
                bool rot = r.chance(0.5);
                if (holes.count(j * (nx - 1) + i))
                    continue;
                std::size_t a = j * nx + i, b = a + 1, c = a + nx, d = c + 1;
                std::array<std::size_t, 3> t1, t2;
                if (flip)
                {
                    t1 = { a, b, d };
                    t2 = { a, d, c };
                }
                else
                {
                    t1 = { a, b, c };
                    t2 = { b, d, c };
                }
                if (rot)
                {
                    std::swap(t1[0], t1[1]);  // vertex order inside a triangle is free
                    std::rotate(t2.begin(), t2.begin() + 1, t2.end());
                }
                m.triangles.push_back(t1);
                m.triangles.push_back(t2);
            }
        return m;
    }

    // ------------------------------------------------------------------ grid construction
    template <class G>
    struct GridMaker;

    inline fs::node_status to_status(int s)
    {
        return static_cast<fs::node_status>(static_cast<std::uint8_t>(s));
    }

    template <fs::raster_connect RC, class C>
    struct GridMaker<fs::raster_grid<fs::xt_selector, RC, C>>
    {
        using G = fs::raster_grid<fs::xt_selector, RC, C>;
        static std::unique_ptr<G> make(const GridSpec& g)
        {
            fs::raster_boundary_status bs(std::array<fs::node_status, 4>{ to_status(g.bs[0]), to_status(g.bs[1]), to_status(g.bs[2]), to_status(g.bs[3]) });
            typename G::nodes_status_map_type ov;
            for (const auto& o : g.overrides)
                ov[{ o.first / g.cols, o.first % g.cols }] = to_status(o.second);
            typename G::shape_type shape = { g.rows, g.cols };
            typename G::spacing_type spacing = { g.dy, g.dx };
            if (g.from_length)
            {
                typename G::length_type length = { g.dy * static_cast<double>(g.rows - 1), g.dx * static_cast<double>(g.cols - 1) };
                return std::make_unique<G>(G::from_length(shape, length, bs, ov));
            }
            return std::make_unique<G>(shape, spacing, bs, ov);
        }
    };

    template <class C>
    struct GridMaker<fs::profile_grid<fs::xt_selector, C>>
    {
        using G = fs::profile_grid<fs::xt_selector, C>;
        static std::unique_ptr<G> make(const GridSpec& g)
        {
            fs::profile_boundary_status bs(to_status(g.bs[0]), to_status(g.bs[1]));
            typename G::nodes_status_map_type ov;
            for (const auto& o : g.overrides)
                ov[o.first] = to_status(o.second);
            if (g.from_length)
                return std::make_unique<G>(G::from_length(g.cols, g.dx * static_cast<double>(g.cols - 1), bs, ov));
            return std::make_unique<G>(g.cols, g.dx, bs, ov);
        }
    };

    template <>
    struct GridMaker<trimesh_grid>
    {
        using G = trimesh_grid;
        static std::unique_ptr<G> make(const GridSpec& g)
        {
            MeshData m = make_mesh(g);
            typename G::points_type pts = G::points_type::from_shape({ m.points.size(), std::size_t(2) });
            for (std::size_t i = 0; i < m.points.size(); ++i)
            {
                pts(i, 0) = m.points[i][0];
                pts(i, 1) = m.points[i][1];
            }
            typename G::triangles_type tri = G::triangles_type::from_shape({ m.triangles.size(), std::size_t(3) });
            for (std::size_t i = 0; i < m.triangles.size(); ++i)
                for (std::size_t k = 0; k < 3; ++k)
                    tri(i, k) = m.triangles[i][k];
            typename G::nodes_status_map_type ov;
            for (const auto& o : g.overrides)
                ov[o.first] = to_status(o.second);
            return std::make_unique<G>(pts, tri, ov);
        }
    };

    // ------------------------------------------------------------------ geometric model (C07)
    struct MNeighbor
    {
        std::size_t idx;
        double distance;
        int status;
        bool operator<(const MNeighbor& o) const
        {
            if (idx != o.idx)
                return idx < o.idx;
            if (distance != o.distance)
                return distance < o.distance;
            return status < o.status;
        }
        bool operator==(const MNeighbor& o) const
        {
            return idx == o.idx && distance == o.distance && status == o.status;
        }
    };

    // the model's own composition of node statuses (independent of the library)
    inline std::vector<int> model_statuses(const GridSpec& g)
    {
        auto prio = [](int s) { return s == 1 ? 3 : (s == 2 ? 2 : (s == 3 ? 1 : 0)); };
        std::vector<int> st(g.size(), 0);
        if (grid_is_profile(g.kind))
        {
            st[0] = g.bs[0];
            st[g.cols - 1] = g.bs[1];
        }
        else if (grid_is_raster(g.kind))
        {
            for (std::size_t r = 0; r < g.rows; ++r)
                for (std::size_t c = 0; c < g.cols; ++c)
                {
                    int best = 0;
                    bool any = false;
                    auto take = [&](int s)
                    {
                        if (!any || prio(s) > prio(best))
                            best = s;
                        any = true;
                    };
                    if (c == 0)
                        take(g.bs[0]);
                    if (c == g.cols - 1)
                        take(g.bs[1]);
                    if (r == 0)
                        take(g.bs[2]);
                    if (r == g.rows - 1)
                        take(g.bs[3]);
                    st[r * g.cols + c] = any ? best : 0;
                }
        }
        for (const auto& o : g.overrides)
            if (o.first < st.size())
                st[o.first] = o.second;
        return st;
    }

    inline std::vector<MNeighbor> model_neighbors(const GridSpec& g, const std::vector<int>& st, std::size_t idx)
    {
        std::vector<MNeighbor> out;
        if (grid_is_profile(g.kind))
        {
            const bool looped = g.bs[0] == 3 && g.bs[1] == 3;
            const long n = static_cast<long>(g.cols);
            for (long d : { -1L, 1L })
            {
                long j = static_cast<long>(idx) + d;
                if (j < 0 || j >= n)
                {
                    if (!looped)
                        continue;
                    j = (j + n) % n;
                }
                out.push_back({ static_cast<std::size_t>(j), g.dx, st[static_cast<std::size_t>(j)] });
            }
            return out;
        }
        const bool vloop = g.bs[2] == 3 && g.bs[3] == 3;
        const bool hloop = g.bs[0] == 3 && g.bs[1] == 3;
        const long R = static_cast<long>(g.rows), C = static_cast<long>(g.cols);
        const long r = static_cast<long>(idx) / C, c = static_cast<long>(idx) % C;
        const bool rook = g.kind == G_RASTER_ROOK || g.kind == G_RASTER_ROOK_NC;
        const bool bishop = g.kind == G_RASTER_BISHOP || g.kind == G_RASTER_BISHOP_NC;
        for (long dr = -1; dr <= 1; ++dr)
            for (long dc = -1; dc <= 1; ++dc)
            {
                if (dr == 0 && dc == 0)
                    continue;
                const bool diag = dr != 0 && dc != 0;
                if (rook && diag)
                    continue;
                if (bishop && !diag)
                    continue;
                long rr = r + dr, cc = c + dc;
                if (rr < 0 || rr >= R)
                {
                    if (!vloop)
                        continue;
                    rr = (rr + R) % R;
                }
                if (cc < 0 || cc >= C)
                {
                    if (!hloop)
                        continue;
                    cc = (cc + C) % C;
                }
                double ddy = dr != 0 ? g.dy : 0.0, ddx = dc != 0 ? g.dx : 0.0;
                std::size_t j = static_cast<std::size_t>(rr * C + cc);
                out.push_back({ j, std::sqrt(ddy * ddy + ddx * ddx), st[j] });
            }
        return out;
    }
}
