// world harness instantiation for one grid family
#include "world.hpp"
namespace vw
{
    template class Runner<queen_nc_grid>;
    IRunner* make_runner_raster_queen_nc()
    {
        return new Runner<queen_nc_grid>(G_RASTER_QUEEN_NC);
    }
}
