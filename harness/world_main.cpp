// World harness worker: generates worlds + histories, runs them under the scheduler, applies oracles.
// This TU does not include fastscapelib (fast to build); grid families live in world_<kind>.cpp.
#include <algorithm>
#include <cmath>
#include <map>
#include <memory>
#include <csignal>
#include <sys/time.h>

#include "common.hpp"
#include "world_spec.hpp"

namespace vw
{
    int g_current_op = -1;
    IRunner* make_runner_profile();
    IRunner* make_runner_raster_rook();
    IRunner* make_runner_raster_queen();
    IRunner* make_runner_raster_bishop();
    IRunner* make_runner_raster_queen_nc();
    IRunner* make_runner_raster_rook_nc();
    IRunner* make_runner_trimesh();
    IRunner* make_runner_profile_nc();
    IRunner* make_runner_raster_bishop_nc();
    IRunner* get_runner(int kind)
    {
        static IRunner* r[G_COUNT] = {};
        if (kind < 0 || kind >= G_COUNT)
            return nullptr;
        if (!r[kind])
        {
            switch (kind)
            {
                case G_PROFILE:
                    r[kind] = make_runner_profile();
                    break;
                case G_RASTER_ROOK:
                    r[kind] = make_runner_raster_rook();
                    break;
                case G_RASTER_QUEEN:
                    r[kind] = make_runner_raster_queen();
                    break;
                case G_RASTER_BISHOP:
                    r[kind] = make_runner_raster_bishop();
                    break;
                case G_RASTER_QUEEN_NC:
                    r[kind] = make_runner_raster_queen_nc();
                    break;
                case G_RASTER_ROOK_NC:
                    r[kind] = make_runner_raster_rook_nc();
                    break;
                case G_PROFILE_NC:
                    r[kind] = make_runner_profile_nc();
                    break;
                case G_RASTER_BISHOP_NC:
                    r[kind] = make_runner_raster_bishop_nc();
                    break;
                default:
                    r[kind] = make_runner_trimesh();
            }
        }
        return r[kind];
    }
}

using vsim::Rng;

namespace
{
    vh::StderrCapture g_cap;
    vh::Args g_args;
    vh::Aggregate g_agg;
    int g_mode = 10;

    // Grid family of a run. The first draw is over the seven original families, so that the worlds older
    // seeds generate for them are unchanged; the cache-less profile and bishop grids take over a share of
    // their cached counterparts' runs.
    int draw_kind(Rng& wr)
    {
        int kind = static_cast<int>(wr.below(vw::G_TRIMESH + 1));
        if (g_mode == vw::MODE_C10 && wr.chance(0.3))
            kind = wr.chance(0.5) ? vw::G_TRIMESH : (wr.chance(0.5) ? vw::G_RASTER_QUEEN_NC : vw::G_RASTER_ROOK_NC);
        if (g_mode == vw::MODE_C07 && kind == vw::G_TRIMESH)
            kind = vw::G_RASTER_QUEEN;
        if (kind == vw::G_PROFILE && wr.chance(0.4))
            kind = vw::G_PROFILE_NC;
        else if (kind == vw::G_RASTER_BISHOP && wr.chance(0.4))
            kind = vw::G_RASTER_BISHOP_NC;
        return kind;
    }

    struct Current
    {
        vh::Result res;
        vw::WorldSpec spec;
        uint64_t seed = 0;
        bool replaying = false;
        bool generating = false;  // the workload generator (which runs library code) is in progress
    } g_cur;

    std::string write_replay(const std::string& cls, const std::string& key, const std::string& detail)
    {
        if (g_args.replay_dir.empty())
            return "";
        vh::mkdirs(g_args.replay_dir);
        std::string path = g_args.replay_dir + "/world-" VERIF_FLAVOUR "-" + std::to_string(g_cur.seed) + "-" + std::to_string(g_cur.res.run) + ".replay";
        std::ofstream f(path);
        f << "# fastscapelib verification replay file (world harness)\n";
        f << "harness world\nflavour " VERIF_FLAVOUR "\nmode " << g_mode << "\n";
        f << "seed " << g_cur.seed << "\nrun " << g_cur.res.run << "\n";
        f << "class " << cls << "\nkey " << key << "\n";
        f << "tier " << g_args.tier << "\n";
        if (g_cur.generating)
            f << "regenerate 1\n";  // died while generating the workload: replay re-runs the generator
        std::string d = detail.substr(0, 1500);
        std::replace(d.begin(), d.end(), '\n', ' ');
        f << "detail " << d << "\n";
        f << vw::spec_lines(g_cur.spec);
        f << vh::dev_lines(vsim::deviations());
        return path;
    }

    [[noreturn]] void on_fatal(const vsim::HangInfo& hi)
    {
        const char* cls = hi.verdict == vsim::V_HANG ? "hang" : (hi.verdict == vsim::V_BUDGET ? "budget" : "internal");
        std::string during = "?";
        if (vw::g_current_op >= 0 && vw::g_current_op < static_cast<int>(g_cur.spec.history.size()))
            during = vw::hop_name(g_cur.spec.history[static_cast<std::size_t>(vw::g_current_op)].kind);
        else if (vw::g_current_op >= static_cast<int>(g_cur.spec.history.size()))
            during = "destruction";
        g_cur.res.verdict = hi.verdict == vsim::V_INTERNAL ? "internal" : "violation";
        g_cur.res.cls = cls;
        g_cur.res.key = std::string(cls) + ":world:" + during;
        g_cur.res.detail = hi.text + " | during op#" + std::to_string(vw::g_current_op) + " " + during + " | tail: " + vsim::log_tail(40);
        g_cur.res.st = vsim::current_stats();
        if (!g_cur.replaying && g_args.gates(cls))
            g_cur.res.replay_path = write_replay(cls, g_cur.res.key, g_cur.res.detail);
        g_agg.add(g_cur.res);
        vh::print_result(g_cur.res, true);
        g_agg.print();
        _exit(3);
    }

    // called by the sanitizer runtime just before it kills the process (fatal report, SEGV, ...)
    void on_sanitizer_death()
    {
        static bool once = false;
        if (once)
            return;
        once = true;
        std::string text = g_cap.since();
        g_cap.echo(text);
        std::string scls = vh::sanitizer_class(text);
        std::string sum = vh::sanitizer_summary(text);
        std::string where;
        std::size_t p = sum.find("fastscapelib/");
        if (p != std::string::npos)
        {
            std::size_t e = sum.find_first_of(" :\n)", p);
            where = sum.substr(p + 13, e == std::string::npos ? 40 : e - p - 13);
        }
        g_cur.res.verdict = "violation";
        g_cur.res.cls = "sanitizer";
        g_cur.res.key = "sanitizer:fatal:" + (scls.empty() ? std::string("unknown") : scls) + ":" + where;
        g_cur.res.detail = std::string("fatal error (sanitizer report / assertion / abort, process killed) ") + (g_cur.generating ? "while generating the workload" : "during op#" + std::to_string(vw::g_current_op)) + "\n" + sum + text.substr(0, 600);
        g_cur.res.st = vsim::current_stats();
        // a run that kills the process fails whatever check is running (class "crash" unless the check
        // gates sanitizer reports itself); the replay file says what stopped it
        if (!g_args.gates("sanitizer"))
            g_cur.res.cls = "crash";
        if (!g_cur.replaying)
            g_cur.res.replay_path = write_replay(g_cur.res.cls, g_cur.res.key, g_cur.res.detail);
        vh::print_result(g_cur.res, true);
        g_agg.print();
    }

    // CPU-time watchdog: a single run normally takes milliseconds. If one run burns this much user CPU time
    // (library code looping without reaching any schedule point), report it and exit. CPU time, not wall
    // time: a worker that is merely starved or blocked on its output pipe on a loaded machine is not stuck.
    constexpr unsigned STUCK_SECONDS = 40;
    void arm_watchdog()
    {
        struct itimerval tv;
        std::memset(&tv, 0, sizeof tv);
        tv.it_value.tv_sec = STUCK_SECONDS;
        setitimer(ITIMER_VIRTUAL, &tv, nullptr);
    }
    void on_alarm(int)
    {
        g_cur.res.verdict = "violation";
        g_cur.res.cls = "stuck";
        std::string during = "?";
        if (vw::g_current_op >= 0 && vw::g_current_op < static_cast<int>(g_cur.spec.history.size()))
            during = vw::hop_name(g_cur.spec.history[static_cast<std::size_t>(vw::g_current_op)].kind);
        g_cur.res.key = "stuck:world:" + during;
        g_cur.res.detail = "no progress for " + std::to_string(STUCK_SECONDS) + " s of CPU time inside one simulated run (op#"
                           + std::to_string(vw::g_current_op) + " " + during + "): library code loops without reaching a schedule point";
        g_cur.res.st = vsim::current_stats();
        if (!g_cur.replaying && g_args.gates("stuck"))
            g_cur.res.replay_path = write_replay("stuck", g_cur.res.key, g_cur.res.detail);
        vh::print_result(g_cur.res, true);
        g_agg.print();
        _exit(4);
    }

    void on_abort(int)
    {
        on_sanitizer_death();
        _exit(77);
    }

    vsim::Config gen_cfg(Rng& r, bool thorough)
    {
        vsim::Config c;
        double u = r.unit();
        c.strategy = u < 0.1 ? vsim::ST_RUN_TO_BLOCK : (u < 0.6 ? vsim::ST_RANDOM : vsim::ST_PCT);
        static const double ps[] = { 0.05, 0.2, 0.5, 1.0 };
        c.p_switch = ps[r.below(4)];
        c.pct_depth = static_cast<int>(r.range(1, 3));
        c.pct_horizon = static_cast<uint64_t>(r.range(50, thorough ? 20000 : 6000));
        static const double sp[] = { 0.0, 0.0, 0.02, 0.1 };
        c.p_spurious = sp[r.below(4)];
        static const int msp[] = { 1, 2, 5, 20 };
        c.max_spurious = msp[r.below(4)];
        static const int stl[] = { 0, 0, 20, 400 };
        c.stall_max = stl[r.below(4)];
        c.p_stall = 0.03;
        static const int sd[] = { 0, 5, 50 };
        c.start_delay_max = sd[r.below(3)];
        static const double pd[] = { 0.0, 1e-4, 1e-3, 1e-2 };
        c.preempt_density = pd[r.below(4)];
        static const double pb[] = { 0.0, 0.0, 0.2, 0.5 };
        c.preempt_burst = pb[r.below(4)];
        c.sched_seed = r.next();
        c.step_budget = 3000000;
        return c;
    }

    uint64_t spec_hash(const vw::WorldSpec& w)
    {
        std::string s = vw::spec_lines(w);
        uint64_t h = 1469598103934665603ULL;
        for (std::size_t i = 0; i + 8 <= s.size(); i += 8)
        {
            uint64_t v;
            std::memcpy(&v, s.data() + i, 8);
            h = vsim::mix64(h, v);
        }
        for (std::size_t i = s.size() - s.size() % 8; i < s.size(); ++i)
            h = vsim::mix64(h, static_cast<uint64_t>(s[i]));
        return h;
    }

    uint64_t g_tsan0 = 0;
    // sanitizer reports are attributed to a run from the moment its generation starts
    void begin_window()
    {
        arm_watchdog();
        g_cap.begin_run();
        g_tsan0 = vsim::tsan_reports();
    }

    void run_one(const vsim::Config& cfg)
    {
        uint64_t tsan0 = g_tsan0;
        vw::RunOutcome out;
        vw::IRunner* runner = vw::get_runner(g_cur.spec.grid.kind);
        vw::g_current_op = -1;
        vsim::begin(cfg);
        try
        {
            runner->execute(g_cur.spec, g_mode, out);
        }
        catch (const std::exception& e)
        {
            out.violation("exception", std::string("exception:") + vw::hop_name(vw::g_current_op >= 0 && vw::g_current_op < static_cast<int>(g_cur.spec.history.size())
                                                                                   ? g_cur.spec.history[static_cast<std::size_t>(vw::g_current_op)].kind
                                                                                   : 0),
                          std::string("unexpected exception: ") + e.what());
        }
        g_cur.res.st = vsim::end();
        g_cur.res.counters = out.counters;
        g_cur.res.nontrivial = out.nontrivial;
        if (!out.cls.empty())
        {
            g_cur.res.verdict = "violation";
            g_cur.res.cls = out.cls;
            g_cur.res.key = out.key;
            g_cur.res.detail = out.detail + " | at op#" + std::to_string(vw::g_current_op);
        }
        uint64_t races = vsim::tsan_reports() - tsan0;
        std::string text = g_cap.since();
        if (g_args.verbose)
            g_cap.echo(text);
        std::string scls = vh::sanitizer_class(text);
        g_cur.res.counters["p.tsan_reports"] = races;
        // sanitizer findings take precedence over (and usually explain) oracle mismatches
        if ((races > 0 || scls == "tsan") && text.find("ThreadSanitizer: data race") == std::string::npos
            && text.find("ThreadSanitizer:") != std::string::npos)
        {
            // heap-use-after-free and friends detected by the TSan runtime: memory safety, not a race
            g_cur.res.verdict = "violation";
            g_cur.res.cls = "sanitizer";
            g_cur.res.key = "sanitizer:tsan-memory";
            g_cur.res.detail = vh::sanitizer_summary(text) + " || oracle: " + out.detail;
        }
        else if (races > 0 || scls == "tsan")
        {
            g_cur.res.verdict = "violation";
            g_cur.res.cls = "race";
            g_cur.res.key = std::string("race:world:") + vw::grid_kind_name(g_cur.spec.grid.kind);
            g_cur.res.detail = "ThreadSanitizer: " + std::to_string(races) + " report(s)\n" + vh::sanitizer_summary(text) + " || oracle: " + out.detail;
        }
        else if (!scls.empty())
        {
            bool gate_san = g_args.gates("sanitizer");
            if (gate_san || out.cls.empty())
            {
                g_cur.res.verdict = "violation";
                g_cur.res.cls = "sanitizer";
                std::string sum = vh::sanitizer_summary(text);
                // stable key: sanitizer kind + first library frame (file name only)
                std::string where;
                std::size_t p = sum.find("fastscapelib/");
                if (p != std::string::npos)
                {
                    std::size_t e = sum.find_first_of(" :\n)", p);
                    where = sum.substr(p + 13, e == std::string::npos ? 40 : e - p - 13);
                }
                g_cur.res.key = "sanitizer:" + scls + ":" + where;
                g_cur.res.detail = sum + " || oracle: " + out.detail;
            }
        }
    }
}

extern "C" void __sanitizer_set_death_callback(void (*callback)(void));

int main(int argc, char** argv)
{
    __sanitizer_set_death_callback(&on_sanitizer_death);
    signal(SIGVTALRM, &on_alarm);
    signal(SIGABRT, &on_abort);
    g_args = vh::parse_args(argc, argv);
    g_cap.start();
    vsim::install();
    vsim::set_fatal_handler(&on_fatal);
    const bool thorough = g_args.tier == "thorough";
    if (!g_args.mode.empty())
        g_mode = atoi(g_args.mode.c_str() + (g_args.mode[0] == 'C' ? 1 : 0));

    if (!g_args.replay.empty())
    {
        vh::ReplayFile rf;
        if (!vh::read_replay(g_args.replay, rf))
        {
            fprintf(stdout, "{\"error\":\"cannot read replay file\"}\n");
            return 2;
        }
        g_cur = Current();
        if (rf.kv.count("mode"))
            g_mode = atoi(rf.kv["mode"].c_str());
        if (rf.kv.count("regenerate"))
        {
            // the original run died inside the workload generator: run the generator again
            uint64_t seed = strtoull(rf.kv["seed"].c_str(), nullptr, 10), run = strtoull(rf.kv["run"].c_str(), nullptr, 10);
            g_cur.seed = seed;
            g_cur.res.run = run;
            g_cur.replaying = true;
            Rng wr;
            wr.seed(vsim::mix64(seed, run * 2 + 1));
            int kind = draw_kind(wr);
            g_cur.spec.grid.kind = kind;
            vh::print_begin(run);
            begin_window();
            g_cur.generating = true;
            vw::get_runner(kind)->generate(wr, g_mode, rf.kv["tier"] == "thorough", g_cur.spec);
            g_cur.generating = false;
            vsim::Config cfg = gen_cfg(wr, rf.kv["tier"] == "thorough");
            g_cur.res.workload = vw::spec_brief(g_cur.spec);
            run_one(cfg);
            vh::print_result(g_cur.res, true);
            return g_cur.res.verdict == "ok" ? 0 : 1;
        }
        if (!vw::spec_from_tokens(rf.extra, rf.ops, g_cur.spec))
        {
            fprintf(stdout, "{\"error\":\"bad world spec in replay file\"}\n");
            return 2;
        }
        vsim::Config cfg;
        cfg.strategy = vsim::ST_REPLAY;
        cfg.replay = rf.devs;
        cfg.step_budget = 3000000;
        g_cur.replaying = true;
        g_cur.seed = strtoull(rf.kv["seed"].c_str(), nullptr, 10);
        g_cur.res.run = strtoull(rf.kv["run"].c_str(), nullptr, 10);
        g_cur.res.workload = vw::spec_brief(g_cur.spec);
        vh::print_begin(g_cur.res.run);
        begin_window();
        run_one(cfg);
        vh::print_result(g_cur.res, true);
        return g_cur.res.verdict == "ok" ? 0 : 1;
    }

    int nviol = 0;
    for (uint64_t run = g_args.from; run < g_args.to; ++run)
    {
        Rng wr;
        wr.seed(vsim::mix64(g_args.seed, run * 2 + 1));
        g_cur = Current();
        g_cur.seed = g_args.seed;
        g_cur.res.run = run;
        int kind = draw_kind(wr);
        g_cur.spec.grid.kind = kind;
        vh::print_begin(run);
        begin_window();
        g_cur.generating = true;
        vw::g_current_op = -1;
        vw::get_runner(kind)->generate(wr, g_mode, thorough, g_cur.spec);
        g_cur.generating = false;
        vsim::Config cfg = gen_cfg(wr, thorough);
        g_cur.res.workload = vw::spec_brief(g_cur.spec);
        g_cur.res.workload_hash = spec_hash(g_cur.spec);
        run_one(cfg);
        if (g_args.verify_replay && g_cur.res.verdict == "ok" && !vsim::deviations_overflowed())
        {
            vh::Result first = g_cur.res;
            vsim::Config rc;
            rc.strategy = vsim::ST_REPLAY;
            rc.replay = vsim::deviations();
            rc.step_budget = cfg.step_budget;
            g_cur.res = vh::Result();
            g_cur.res.run = run;
            run_one(rc);
            if (g_cur.res.st.event_hash != first.st.event_hash)
            {
                first.verdict = "internal";
                first.cls = "replay_mismatch";
                first.detail = "replaying the recorded deviations gave event hash " + vh::hex64(g_cur.res.st.event_hash) + " instead of "
                               + vh::hex64(first.st.event_hash);
            }
            first.counters["p.replay_verified"] = 1;
            g_cur.res = first;
        }
        if (g_cur.res.verdict != "ok")
        {
            if (g_args.gates(g_cur.res.cls))
            {
                g_cur.res.replay_path = write_replay(g_cur.res.cls, g_cur.res.key, g_cur.res.detail);
                ++nviol;
            }
            else
            {
                g_cur.res.counters["other." + g_cur.res.cls] = 1;
                g_cur.res.verdict = "ok";
                g_cur.res.detail.clear();
            }
        }
        g_agg.add(g_cur.res);
        vh::print_result(g_cur.res, (run % 499) == 0);
        if (nviol >= g_args.max_viol && !g_args.keep_going)
            break;
    }
    g_agg.print();
    return 0;
}
