// world harness instantiation for one grid family
#include "world.hpp"
namespace vw
{
    template class Runner<trimesh_grid>;
    IRunner* make_runner_trimesh()
    {
        return new Runner<trimesh_grid>(G_TRIMESH);
    }
}
