// world harness instantiation for one grid family
#include "world.hpp"
namespace vw
{
    template class Runner<profile_grid>;
    IRunner* make_runner_profile()
    {
        return new Runner<profile_grid>(G_PROFILE);
    }
}
