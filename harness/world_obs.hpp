// World harness, part 2: observable state of a flow graph, comparison, kernel harness.
#pragma once
#include "world_base.hpp"

namespace vw
{
    inline uint64_t dbits(double v)
    {
        uint64_t u;
        std::memcpy(&u, &v, sizeof u);
        return u;
    }

    // Everything a user can observe on a routed graph (rows only up to their counts).
    struct Obs
    {
        std::size_t n = 0;
        bool valid = false;
        std::vector<std::size_t> rcount, dcount;
        std::vector<std::vector<std::size_t>> rec, don;
        std::vector<std::vector<uint64_t>> dist, weight;  // bit patterns
        std::vector<std::size_t> dfs, bfs, levels;
        std::vector<uint64_t> acc;       // accumulate(1.0)
        std::vector<std::size_t> basins; // single flow only
        bool has_basins = false;
        std::vector<uint64_t> elev;      // returned elevation (when known)
        bool sane = true;                // tables index inside the graph
        std::string insane;
    };

    template <class Graph>
    Obs observe(Graph& graph, const typename Graph::data_array_type* elevation, bool with_basins, bool with_acc = true)
    {
        Obs o;
        const auto& im = graph.impl();
        const std::size_t n = im.size();
        o.n = n;
        o.valid = true;
        const std::size_t rmax = im.receivers().shape()[1];
        const std::size_t dmax = im.donors().shape()[1];
        o.rcount.resize(n);
        o.dcount.resize(n);
        o.rec.resize(n);
        o.don.resize(n);
        o.dist.resize(n);
        o.weight.resize(n);
        for (std::size_t i = 0; i < n; ++i)
        {
            std::size_t rc = im.receivers_count()(i), dc = im.donors_count()(i);
            o.rcount[i] = rc;
            o.dcount[i] = dc;
            if (rc > rmax || dc > dmax)
            {
                o.sane = false;
                o.insane = "count exceeds table width at node " + std::to_string(i);
                rc = std::min(rc, rmax);
                dc = std::min(dc, dmax);
            }
            for (std::size_t k = 0; k < rc; ++k)
            {
                std::size_t r = im.receivers()(i, k);
                if (r >= n)
                {
                    o.sane = false;
                    o.insane = "receiver out of range at node " + std::to_string(i);
                }
                o.rec[i].push_back(r);
                o.dist[i].push_back(dbits(im.receivers_distance()(i, k)));
                o.weight[i].push_back(dbits(im.receivers_weight()(i, k)));
            }
            for (std::size_t k = 0; k < dc; ++k)
            {
                std::size_t d = im.donors()(i, k);
                if (d >= n)
                {
                    o.sane = false;
                    o.insane = "donor out of range at node " + std::to_string(i);
                }
                o.don[i].push_back(d);
            }
        }
        for (std::size_t i = 0; i < n; ++i)
        {
            o.dfs.push_back(im.dfs_indices()(i));
            o.bfs.push_back(im.bfs_indices()(i));
            if (o.dfs.back() >= n)
            {
                o.sane = false;
                o.insane = "bottom-up order holds an invalid index";
            }
            if (o.bfs.back() >= n)
            {
                o.sane = false;
                o.insane = "breadth-first order holds an invalid index";
            }
        }
        for (std::size_t i = 0; i < im.bfs_levels().size(); ++i)
            o.levels.push_back(im.bfs_levels()(i));
        if (o.sane && with_acc)
        {
            auto acc = graph.accumulate(1.0);
            for (std::size_t i = 0; i < n; ++i)
                o.acc.push_back(dbits(acc.flat(i)));
        }
        // basins are defined on single-direction *states*: either the table is single-column (snapshot graphs
        // record this) or the operator sequence ends in a single-direction state (e.g. {multi, single})
        if (o.sane && with_basins && (im.single_flow() || graph.single_flow()))
        {
            auto b = graph.basins();
            for (std::size_t i = 0; i < n; ++i)
                o.basins.push_back(b.flat(i));
            o.has_basins = true;
        }
        if (elevation)
            for (std::size_t i = 0; i < n; ++i)
                o.elev.push_back(dbits(elevation->flat(i)));
        return o;
    }

    inline uint64_t obs_digest(const Obs& o)
    {
        uint64_t h = 1469598103934665603ULL;
        auto f = [&h](uint64_t v) { h = vsim::mix64(h, v); };
        for (std::size_t i = 0; i < o.n; ++i)
        {
            f(o.rcount[i]);
            for (auto v : o.rec[i])
                f(v);
            for (auto v : o.dist[i])
                f(v);
            for (auto v : o.weight[i])
                f(v);
        }
        for (auto v : o.dfs)
            f(v);
        for (auto v : o.bfs)
            f(v);
        for (auto v : o.levels)
            f(v);
        for (auto v : o.acc)
            f(v);
        for (auto v : o.basins)
            f(v);
        for (auto v : o.elev)
            f(v);
        return h;
    }

    struct CmpOpts
    {
        bool donors_ignore_self = false;  // compare donor lists with self entries removed
        bool donors = true;
        bool elevation = true;
        bool bfs = true;
    };

    // "" when equal, else "<table>: description of the first difference"
    inline std::string compare_obs(const Obs& a, const Obs& b, const CmpOpts& opt)
    {
        char buf[256];
        if (!a.sane)
            return "sanity(A): " + a.insane;
        if (!b.sane)
            return "sanity(B): " + b.insane;
        if (a.n != b.n)
            return "size: differs";
        for (std::size_t i = 0; i < a.n; ++i)
        {
            if (a.rcount[i] != b.rcount[i])
            {
                snprintf(buf, sizeof buf, "receivers_count: node %zu: %zu vs %zu", i, a.rcount[i], b.rcount[i]);
                return buf;
            }
            for (std::size_t k = 0; k < a.rec[i].size(); ++k)
            {
                if (a.rec[i][k] != b.rec[i][k])
                {
                    snprintf(buf, sizeof buf, "receivers: node %zu col %zu: %zu vs %zu", i, k, a.rec[i][k], b.rec[i][k]);
                    return buf;
                }
                if (a.dist[i][k] != b.dist[i][k])
                {
                    snprintf(buf, sizeof buf, "receivers_distance: node %zu col %zu differs", i, k);
                    return buf;
                }
                if (a.weight[i][k] != b.weight[i][k])
                {
                    snprintf(buf, sizeof buf, "receivers_weight: node %zu col %zu differs", i, k);
                    return buf;
                }
            }
        }
        if (opt.donors)
            for (std::size_t i = 0; i < a.n; ++i)
            {
                std::vector<std::size_t> da = a.don[i], db = b.don[i];
                if (opt.donors_ignore_self)
                {
                    da.erase(std::remove(da.begin(), da.end(), i), da.end());
                    db.erase(std::remove(db.begin(), db.end(), i), db.end());
                }
                if (da != db)
                {
                    snprintf(buf, sizeof buf, "donors: node %zu: %zu entries vs %zu entries (or different members)", i, da.size(), db.size());
                    return buf;
                }
            }
        for (std::size_t i = 0; i < a.n; ++i)
            if (a.dfs[i] != b.dfs[i])
            {
                snprintf(buf, sizeof buf, "dfs_indices: position %zu: %zu vs %zu", i, a.dfs[i], b.dfs[i]);
                return buf;
            }
        if (opt.bfs)
        {
            for (std::size_t i = 0; i < a.n; ++i)
                if (a.bfs[i] != b.bfs[i])
                {
                    snprintf(buf, sizeof buf, "bfs_indices: position %zu: %zu vs %zu", i, a.bfs[i], b.bfs[i]);
                    return buf;
                }
            if (a.levels != b.levels)
                return "bfs_levels: differ";
        }
        if (a.acc.size() == b.acc.size())
        {
            for (std::size_t i = 0; i < a.acc.size(); ++i)
                if (a.acc[i] != b.acc[i])
                {
                    snprintf(buf, sizeof buf, "accumulate: node %zu differs", i);
                    return buf;
                }
        }
        else
            return "accumulate: one side missing";
        if (a.has_basins != b.has_basins)
            return "basins: one side missing";
        for (std::size_t i = 0; i < a.basins.size(); ++i)
            if (a.basins[i] != b.basins[i])
            {
                snprintf(buf, sizeof buf, "basins: node %zu: %zu vs %zu", i, a.basins[i], b.basins[i]);
                return buf;
            }
        if (opt.elevation && !a.elev.empty() && !b.elev.empty())
            for (std::size_t i = 0; i < a.n; ++i)
                if (a.elev[i] != b.elev[i])
                {
                    double x, y;
                    std::memcpy(&x, &a.elev[i], 8);
                    std::memcpy(&y, &b.elev[i], 8);
                    snprintf(buf, sizeof buf, "elevation: node %zu: %a vs %a", i, x, y);
                    return buf;
                }
        return "";
    }

    // ------------------------------------------------------------------ kernel harness
    // Two kernels, both valid for level-parallel execution by construction: they read shared data
    // (inputs, graph tables, outputs of receivers = earlier levels) and write only their own node.
    template <class Impl>
    struct KernelCtx
    {
        const Impl* impl = nullptr;
        std::vector<double> in, out;
        std::vector<int> calls;
        double bias = 0.0;  // handed to every node data object through node_data_init
        int dir = 0;  // 0: any (gather inputs of receivers), 1: breadth_upstream (recurrence on outputs)
    };

    // create / init / free accounting (the library calls these from the caller thread only)
    struct KernelAccounting
    {
        long created = 0, freed = 0, inits = 0, live = 0, max_live = 0;
        bool double_free = false;
    };
    inline KernelAccounting& kernel_accounting()
    {
        static KernelAccounting a;
        return a;
    }

    struct KNode
    {
        std::size_t idx = 0;
        double bias = 0;   // set by node_data_init (when the kernel has one)
        bool alive = true;
        double in = 0, result = 0;
        std::size_t nrec = 0;
        double rv[24];
        double rw[24];
        bool is_self[24];
    };

    template <class Impl>
    struct KernelFns
    {
        using Ctx = KernelCtx<Impl>;
        static int getter(std::size_t idx, void* data, void* node)
        {
            Ctx& c = *static_cast<Ctx*>(data);
            KNode& k = *static_cast<KNode*>(node);
            if (idx >= c.in.size())
                return 1;
            k.idx = idx;
            k.in = c.in[idx];
            std::size_t nrec = c.impl->receivers_count()(idx);
            if (nrec > 24)
                return 1;
            k.nrec = nrec;
            for (std::size_t j = 0; j < nrec; ++j)
            {
                std::size_t r = c.impl->receivers()(idx, j);
                if (r >= c.in.size())
                    return 1;
                k.is_self[j] = (r == idx);
                k.rw[j] = c.impl->receivers_weight()(idx, j);
                k.rv[j] = c.dir == 0 ? c.in[r] : (r == idx ? 0.0 : c.out[r]);
            }
            return 0;
        }
        static int func(void* node)
        {
            KNode& k = *static_cast<KNode*>(node);
            double s = k.in + k.bias;
            for (std::size_t j = 0; j < k.nrec; ++j)
                if (!k.is_self[j])
                    s += 0.5 * k.rw[j] * k.rv[j] + 0.25;
            k.result = s;
            return 0;
        }
        static int setter(std::size_t idx, void* node, void* data)
        {
            Ctx& c = *static_cast<Ctx*>(data);
            KNode& k = *static_cast<KNode*>(node);
            c.out[idx] = k.result;
            c.calls[idx] += 1;
            return 0;
        }
        static void* create()
        {
            KernelAccounting& a = kernel_accounting();
            ++a.created;
            ++a.live;
            if (a.live > a.max_live)
                a.max_live = a.live;
            return new KNode();
        }
        static void init(void* node, void* data)
        {
            Ctx& c = *static_cast<Ctx*>(data);
            static_cast<KNode*>(node)->bias = c.bias;
            ++kernel_accounting().inits;
        }
        static void destroy(void* p)
        {
            KernelAccounting& a = kernel_accounting();
            ++a.freed;
            --a.live;
            delete static_cast<KNode*>(p);
        }
    };

    template <class Graph>
    struct KernelRun
    {
        using Impl = typename Graph::impl_type;
        KernelCtx<Impl> ctx;
        fs::detail::flow_kernel kernel;
        fs::detail::flow_kernel_data kdata;

        void prepare(Graph& graph, int n_threads, int min_block, int min_level, int dir, uint64_t salt)
        {
            const std::size_t n = graph.size();
            ctx.impl = &graph.impl();
            ctx.in.resize(n);
            ctx.out.assign(n, -1.0);
            ctx.calls.assign(n, 0);
            ctx.dir = dir;
            for (std::size_t i = 0; i < n; ++i)
                ctx.in[i] = static_cast<double>((i * 2654435761ULL + salt) % 97) / 8.0;
            kernel.func = &KernelFns<Impl>::func;
            kernel.node_data_getter = &KernelFns<Impl>::getter;
            kernel.node_data_setter = &KernelFns<Impl>::setter;
            kernel.node_data_create = &KernelFns<Impl>::create;
            ctx.bias = (salt % 3 == 0) ? 0.0 : 0.375;
            if (salt % 3 == 0)
                kernel.node_data_init = nullptr;
            else
                kernel.node_data_init = &KernelFns<Impl>::init;
            kernel.node_data_free = &KernelFns<Impl>::destroy;
            kernel.n_threads = n_threads;
            kernel.min_block_size = min_block;
            kernel.min_level_size = min_level;
            kernel.apply_dir = dir == 0 ? fs::flow_graph_traversal_dir::any
                                        : (dir == 1 ? fs::flow_graph_traversal_dir::breadth_upstream : fs::flow_graph_traversal_dir::depth_upstream);
            kdata.data = &ctx;
        }
        void run(Graph& graph)
        {
            graph.apply_kernel(kernel, kdata);
        }
    };
}
