// world harness instantiation for one grid family
#include "world.hpp"
namespace vw
{
    template class Runner<queen_grid>;
    IRunner* make_runner_raster_queen()
    {
        return new Runner<queen_grid>(G_RASTER_QUEEN);
    }
}
