// Pool harness (C11, and the pool part of C08): drives fastscapelib::thread_pool with call
// sequences in the grammar the library issues, under the deterministic scheduler.
#include <algorithm>
#include <cmath>
#include <csignal>
#include <cassert>
#include <mutex>
#include <vector>

#define FASTSCAPELIB_VERIF_HOOKS
#include "fastscapelib/utils/thread_pool.hpp"

#include "common.hpp"

namespace fs = fastscapelib;
using vsim::Rng;

namespace
{
    enum OpType
    {
        OP_CONSTRUCT,
        OP_RESUME,
        OP_RESIZE,
        OP_RUN,
        OP_PAUSE,
        OP_DESTROY
    };
    const char* op_names[] = { "construct", "resume", "resize", "run", "pause", "destroy" };

    struct Op
    {
        int type;
        long a = 0, b = 0, c = 0;
    };

    std::string ops_text(const std::vector<Op>& ops)
    {
        std::string s;
        for (const Op& o : ops)
        {
            s += op_names[o.type];
            if (o.type == OP_CONSTRUCT || o.type == OP_RESIZE)
                s += " " + std::to_string(o.a);
            if (o.type == OP_RUN)
                s += " " + std::to_string(o.a) + " " + std::to_string(o.b) + " " + std::to_string(o.c);
            s += "; ";
        }
        return s;
    }

    std::string ops_lines(const std::vector<Op>& ops)
    {
        std::string s;
        for (const Op& o : ops)
        {
            s += std::string("op ") + op_names[o.type] + " " + std::to_string(o.a) + " " + std::to_string(o.b) + " "
                 + std::to_string(o.c) + "\n";
        }
        return s;
    }

    long pick_size(Rng& r)
    {
        double u = r.unit();
        if (u < 0.15)
            return 10;
        if (u < 0.65)
            return r.range(1, 4);
        return r.range(1, 16);
    }

    std::vector<Op> gen_ops(Rng& r, bool thorough)
    {
        std::vector<Op> ops;
        ops.push_back(Op{ OP_CONSTRUCT, pick_size(r) });
        long episodes = r.range(0, thorough ? 6 : 4);
        for (long e = 0; e < episodes; ++e)
        {
            ops.push_back(Op{ OP_RESUME });
            long n = r.chance(0.25) ? -1 : pick_size(r);
            if (n < 0)
            {
                // same size as before: resize is a no-op
                for (auto it = ops.rbegin(); it != ops.rend(); ++it)
                    if (it->type == OP_RESIZE || it->type == OP_CONSTRUCT)
                    {
                        n = it->a;
                        break;
                    }
            }
            ops.push_back(Op{ OP_RESIZE, n });
            long runs = r.range(0, 4);
            if (runs == 0 && r.chance(0.7))
                runs = 1;
            for (long k = 0; k < runs; ++k)
            {
                long first = r.range(0, 40);
                long len;
                double u = r.unit();
                if (u < 0.08)
                    len = 0;
                else if (u < 0.3)
                    len = std::max<long>(0, n + r.range(-1, 1));
                else if (u < 0.6)
                    len = r.range(1, 12);
                else
                    len = r.range(1, thorough ? 400 : 200);
                static const long mins[] = { 0, 0, 1, 2, 5, 40 };
                long min_size = mins[r.below(6)];
                ops.push_back(Op{ OP_RUN, first, first + len, min_size });
            }
            ops.push_back(Op{ OP_PAUSE });
        }
        ops.push_back(Op{ OP_DESTROY });
        return ops;
    }

    vsim::Config gen_cfg(Rng& r, bool thorough)
    {
        vsim::Config c;
        double u = r.unit();
        c.strategy = u < 0.1 ? vsim::ST_RUN_TO_BLOCK : (u < 0.6 ? vsim::ST_RANDOM : vsim::ST_PCT);
        static const double ps[] = { 0.05, 0.2, 0.5, 1.0 };
        c.p_switch = ps[r.below(4)];
        c.pct_depth = static_cast<int>(r.range(1, 3));
        c.pct_horizon = static_cast<uint64_t>(r.range(20, thorough ? 4000 : 1500));
        static const double sp[] = { 0.0, 0.0, 0.02, 0.1 };
        c.p_spurious = sp[r.below(4)];
        static const int msp[] = { 1, 2, 5, 20 };
        c.max_spurious = msp[r.below(4)];
        static const int stl[] = { 0, 0, 20, 400 };
        c.stall_max = stl[r.below(4)];
        c.p_stall = 0.03;
        static const int sd[] = { 0, 5, 50 };
        c.start_delay_max = sd[r.below(3)];
        static const double pd[] = { 0.0, 0.0, 1e-3, 1e-2 };
        c.preempt_density = pd[r.below(4)];
        static const double pb[] = { 0.0, 0.0, 0.2, 0.5 };
        c.preempt_burst = pb[r.below(4)];
        c.sched_seed = r.next();
        c.step_budget = 400000;
        return c;
    }

    // ---------------------------------------------------------------- run state
    constexpr int MAX_RUNNERS = 64;
    constexpr int MAX_ENTRIES = 8;
    constexpr long ARR = 512;

    struct Entry
    {
        std::size_t start, end;
        uint64_t t0, t1;
    };

    struct RunState
    {
        long in[ARR], out[ARR], cnt[ARR];
        Entry log[MAX_RUNNERS][MAX_ENTRIES];
        int nlog[MAX_RUNNERS];
        long overflow_runner;  // a runner id >= MAX_RUNNERS was seen
    };

    RunState* g_rs = nullptr;
    vh::StderrCapture g_cap;
    vh::Args g_args;
    vh::Aggregate g_agg;

    // context of the run in progress (for the fatal handler)
    struct Current
    {
        vh::Result res;
        std::vector<Op> ops;
        uint64_t seed = 0;
        bool replaying = false;
        int op_index = -1;
    } g_cur;

    std::string write_replay(const std::string& cls, const std::string& detail)
    {
        if (g_args.replay_dir.empty())
            return "";
        vh::mkdirs(g_args.replay_dir);
        std::string path = g_args.replay_dir + "/pool-" VERIF_FLAVOUR "-" + std::to_string(g_cur.seed) + "-"
                           + std::to_string(g_cur.res.run) + ".replay";
        std::ofstream f(path);
        f << "# fastscapelib verification replay file (pool harness)\n";
        f << "harness pool\nflavour " VERIF_FLAVOUR "\n";
        f << "seed " << g_cur.seed << "\nrun " << g_cur.res.run << "\n";
        f << "class " << cls << "\n";
        std::string d = detail.substr(0, 1500);
        std::replace(d.begin(), d.end(), '\n', ' ');
        f << "detail " << d << "\n";
        f << ops_lines(g_cur.ops);
        f << vh::dev_lines(vsim::deviations());
        return path;
    }

    void violation(const std::string& cls, const std::string& key, const std::string& detail)
    {
        if (g_cur.res.verdict != "ok")
            return;  // keep the first one
        g_cur.res.verdict = "violation";
        g_cur.res.cls = cls;
        g_cur.res.key = key;
        g_cur.res.detail = detail;
    }

    [[noreturn]] void on_fatal(const vsim::HangInfo& hi)
    {
        const char* cls = hi.verdict == vsim::V_HANG ? "hang" : (hi.verdict == vsim::V_BUDGET ? "budget" : "internal");
        std::string during = g_cur.op_index >= 0 && g_cur.op_index < static_cast<int>(g_cur.ops.size())
                                 ? op_names[g_cur.ops[static_cast<std::size_t>(g_cur.op_index)].type]
                                 : "?";
        g_cur.res.verdict = hi.verdict == vsim::V_INTERNAL ? "internal" : "violation";
        g_cur.res.cls = cls;
        g_cur.res.key = std::string(cls) + ":pool:" + during;
        g_cur.res.detail = hi.text + " | during op#" + std::to_string(g_cur.op_index) + " " + during + " | tail: " + vsim::log_tail(40);
        g_cur.res.st = vsim::current_stats();
        if (!g_cur.replaying && g_args.gates(cls))
            g_cur.res.replay_path = write_replay(cls, g_cur.res.detail);
        g_agg.add(g_cur.res);
        vh::print_result(g_cur.res, true);
        g_agg.print();
        _exit(3);
    }

    void check_no_stray_callbacks(const char* when)
    {
        for (int r = 0; r < MAX_RUNNERS; ++r)
            if (g_rs->nlog[r] != 0)
            {
                violation("exactly_once", "exactly_once:stray_callback", std::string("callback executed outside a run_blocks call, seen ") + when);
                g_rs->nlog[r] = 0;
            }
    }

    void do_run(fs::thread_pool<std::size_t>& pool, long first, long last, long min_size, long token)
    {
        RunState& rs = *g_rs;
        for (long i = 0; i < ARR; ++i)
        {
            rs.in[i] = i * 7 + token;
            rs.cnt[i] = 0;
            rs.out[i] = -1;
        }
        rs.overflow_runner = -1;
        RunState* prs = g_rs;
        auto cb = [prs, token](std::size_t runner, std::size_t start, std::size_t end)
        {
            uint64_t t0 = vsim::now();
            for (std::size_t i = start; i < end && i < static_cast<std::size_t>(ARR); ++i)
            {
                prs->out[i] = prs->in[i] + token;
                prs->cnt[i] += 1;
                // schedule points inside the job (both flavours): callbacks of different workers interleave
                if (((i + static_cast<std::size_t>(token)) & 7) == 0)
                    vsim::point(20);
            }
            if (runner < static_cast<std::size_t>(MAX_RUNNERS))
            {
                int k = prs->nlog[runner];
                if (k < MAX_ENTRIES)
                    prs->log[runner][k] = Entry{ start, end, t0, vsim::now() };
                prs->nlog[runner] = k + 1;
            }
            else
                prs->overflow_runner = static_cast<long>(runner);
        };
        uint64_t t_call = vsim::now();
        pool.run_blocks(static_cast<std::size_t>(first), static_cast<std::size_t>(last), cb, static_cast<std::size_t>(min_size));
        uint64_t t_ret = vsim::now();

        // ---- oracle over the recorded history of this call
        const std::size_t psize = pool.size();
        std::vector<Entry> blocks;
        char buf[256];
        if (rs.overflow_runner >= 0)
            ++g_cur.res.counters["p.runner_id_not_below_pool_size"];
        for (int r = 0; r < MAX_RUNNERS; ++r)
        {
            if (rs.nlog[r] == 0)
                continue;
            // C11 says nothing about runner ids: recorded, not judged (an id >= pool size would break
            // the kernels' per-runner data, which is C10's / C08's business)
            if (static_cast<std::size_t>(r) >= psize)
                ++g_cur.res.counters["p.runner_id_not_below_pool_size"];
            if (rs.nlog[r] > 1)
                ++g_cur.res.counters["p.runner_ran_several_blocks"];
            for (int k = 0; k < rs.nlog[r] && k < MAX_ENTRIES; ++k)
            {
                const Entry& e = rs.log[r][k];
                blocks.push_back(e);
                if (e.t0 < t_call || e.t1 > t_ret)
                    violation("exactly_once", "exactly_once:callback_outside_call", "callback ran outside the run_blocks call interval");
            }
            rs.nlog[r] = 0;
        }
        if (blocks.size() > psize)
        {
            snprintf(buf, sizeof buf, "%zu blocks for a pool of %zu", blocks.size(), psize);
            violation("exactly_once", "exactly_once:too_many_blocks", buf);
        }
        std::sort(blocks.begin(), blocks.end(), [](const Entry& a, const Entry& b) { return a.start < b.start; });
        std::size_t expect = static_cast<std::size_t>(first);
        bool cover_ok = true;
        for (const Entry& e : blocks)
        {
            if (e.start != expect || e.end <= e.start)
                cover_ok = false;
            expect = e.end;
        }
        if (last > first)
        {
            if (expect != static_cast<std::size_t>(last) || blocks.empty())
                cover_ok = false;
        }
        else if (!blocks.empty())
            cover_ok = false;
        if (!cover_ok)
        {
            std::string d = "blocks do not tile [" + std::to_string(first) + "," + std::to_string(last) + "):";
            for (const Entry& e : blocks)
                d += " [" + std::to_string(e.start) + "," + std::to_string(e.end) + ")";
            violation("exactly_once", "exactly_once:tiling", d);
        }
        for (long i = 0; i < ARR; ++i)
        {
            bool inside = i >= first && i < last;
            long want_cnt = inside ? 1 : 0;
            if (rs.cnt[i] != want_cnt)
            {
                snprintf(buf, sizeof buf, "index %ld executed %ld times (expected %ld) in run [%ld,%ld) min_size=%ld pool=%zu", i, rs.cnt[i],
                         want_cnt, first, last, min_size, psize);
                violation("exactly_once", "exactly_once:count", buf);
                break;
            }
            if (inside && rs.out[i] != rs.in[i] + token)
            {
                snprintf(buf, sizeof buf, "result of index %ld not visible after return", i);
                violation("exactly_once", "exactly_once:result", buf);
                break;
            }
        }
        vsim::note(1, static_cast<uint64_t>(blocks.size()), static_cast<uint64_t>(first * 1000 + last));
    }

    void run_one(const std::vector<Op>& ops, const vsim::Config& cfg)
    {
        g_cap.begin_run();
        uint64_t tsan0 = vsim::tsan_reports();
        std::memset(g_rs->nlog, 0, sizeof g_rs->nlog);
        fs::thread_pool<std::size_t>* pool = nullptr;
        long token = 1000;
        uint64_t ncalls = 0;

        vsim::begin(cfg);
        for (std::size_t k = 0; k < ops.size(); ++k)
        {
            const Op& o = ops[k];
            g_cur.op_index = static_cast<int>(k);
            const uint64_t steps_before = vsim::now();
            vsim::note(2, static_cast<uint64_t>(o.type), static_cast<uint64_t>(o.a * 100000 + o.b * 100 + o.c));
            if (o.type != OP_CONSTRUCT && pool == nullptr)
                continue;
            switch (o.type)
            {
                case OP_CONSTRUCT:
                    if (!pool)
                        pool = new fs::thread_pool<std::size_t>(static_cast<std::size_t>(std::max<long>(1, o.a)));
                    break;
                case OP_RESUME:
                    pool->resume();
                    if (pool->paused())
                        violation("exactly_once", "state:paused_after_resume", "pool still reports paused after resume()");
                    break;
                case OP_RESIZE:
                    pool->resize(static_cast<std::size_t>(std::max<long>(1, o.a)));
                    if (pool->size() != static_cast<std::size_t>(std::max<long>(1, o.a)))
                        violation("exactly_once", "state:size_after_resize", "size() differs from the requested size");
                    break;
                case OP_RUN:
                    token += 1000;
                    ++ncalls;
                    do_run(*pool, std::max<long>(0, o.a), std::min<long>(ARR, std::max<long>(0, o.b)), std::max<long>(0, o.c), token);
                    break;
                case OP_PAUSE:
                    pool->pause();
                    if (!pool->paused())
                        violation("exactly_once", "state:not_paused_after_pause", "pool does not report paused after pause()");
                    break;
                case OP_DESTROY:
                    delete pool;
                    pool = nullptr;
                    break;
            }
            check_no_stray_callbacks(op_names[o.type]);
            // bounded liveness: scheduler steps this call needed to return (faults included)
            const uint64_t used = vsim::now() - steps_before;
            uint64_t& mx = g_cur.res.counters[std::string("max.steps_per_call.") + op_names[o.type]];
            if (used > mx)
                mx = used;
        }
        if (pool)
        {
            g_cur.op_index = static_cast<int>(ops.size());
            delete pool;
        }
        check_no_stray_callbacks("end of run");
        g_cur.res.st = vsim::end();
        g_cur.res.counters["p.run_blocks_calls"] = ncalls;

        // ---- sanitizer oracles
        uint64_t races = vsim::tsan_reports() - tsan0;
        std::string text = g_cap.since();
        if (g_args.verbose)
            g_cap.echo(text);
        std::string scls = vh::sanitizer_class(text);
        if (races > 0 || scls == "tsan")
            violation("race", "race:pool", "ThreadSanitizer: " + std::to_string(races) + " report(s)\n" + vh::sanitizer_summary(text));
        else if (!scls.empty())
            violation("sanitizer", "sanitizer:" + scls + ":pool", vh::sanitizer_summary(text));
        g_cur.res.counters["p.tsan_reports"] = races;
    }

    void on_death()
    {
        static bool once = false;
        if (once)
            return;
        once = true;
        std::string text = g_cap.since();
        g_cap.echo(text);
        std::string scls = vh::sanitizer_class(text);
        g_cur.res.verdict = "violation";
        g_cur.res.cls = "sanitizer";
        g_cur.res.key = "sanitizer:fatal:" + (scls.empty() ? std::string("unknown") : scls) + ":pool";
        g_cur.res.detail = "fatal error (sanitizer report / assertion / abort, process killed) during op#" + std::to_string(g_cur.op_index) + "\n"
                           + vh::sanitizer_summary(text) + text.substr(0, 600);
        g_cur.res.st = vsim::current_stats();
        // a run that kills the process fails whatever check is running (class "crash" unless the check
        // gates sanitizer reports itself); the replay file says what stopped it
        if (!g_args.gates("sanitizer"))
            g_cur.res.cls = "crash";
        if (!g_cur.replaying)
            g_cur.res.replay_path = write_replay(g_cur.res.cls, g_cur.res.detail);
        vh::print_result(g_cur.res, true);
        g_agg.print();
    }
    void on_abort(int)
    {
        on_death();
        _exit(77);
    }

    bool ops_from_replay(const vh::ReplayFile& rf, std::vector<Op>& ops)
    {
        for (const auto& t : rf.ops)
        {
            if (t.empty())
                continue;
            Op o{ -1 };
            for (int k = 0; k < 6; ++k)
                if (t[0] == op_names[k])
                    o.type = k;
            if (o.type < 0)
                return false;
            if (t.size() > 1)
                o.a = atol(t[1].c_str());
            if (t.size() > 2)
                o.b = atol(t[2].c_str());
            if (t.size() > 3)
                o.c = atol(t[3].c_str());
            ops.push_back(o);
        }
        return !ops.empty();
    }
}

extern "C" void __sanitizer_set_death_callback(void (*callback)(void));

int main(int argc, char** argv)
{
    __sanitizer_set_death_callback(&on_death);
    signal(SIGABRT, &on_abort);
    g_args = vh::parse_args(argc, argv);
    g_rs = new RunState();
    g_cap.start();
    vsim::install();
    vsim::set_fatal_handler(&on_fatal);
    const bool thorough = g_args.tier == "thorough";

    if (!g_args.replay.empty())
    {
        vh::ReplayFile rf;
        if (!vh::read_replay(g_args.replay, rf))
        {
            fprintf(stdout, "{\"error\":\"cannot read replay file\"}\n");
            return 2;
        }
        std::vector<Op> ops;
        if (!ops_from_replay(rf, ops))
        {
            fprintf(stdout, "{\"error\":\"no ops in replay file\"}\n");
            return 2;
        }
        vsim::Config cfg;
        cfg.strategy = vsim::ST_REPLAY;
        cfg.replay = rf.devs;
        cfg.step_budget = 400000;
        g_cur = Current();
        g_cur.ops = ops;
        g_cur.replaying = true;
        g_cur.seed = strtoull(rf.kv["seed"].c_str(), nullptr, 10);
        g_cur.res.run = strtoull(rf.kv["run"].c_str(), nullptr, 10);
        g_cur.res.workload = ops_text(ops);
        vh::print_begin(g_cur.res.run);
        run_one(ops, cfg);
        vh::print_result(g_cur.res, true);
        return g_cur.res.verdict == "ok" ? 0 : 1;
    }

    int nviol = 0;
    for (uint64_t run = g_args.from; run < g_args.to; ++run)
    {
        Rng wr;
        wr.seed(vsim::mix64(g_args.seed, run * 2 + 1));
        g_cur = Current();
        g_cur.seed = g_args.seed;
        g_cur.res.run = run;
        g_cur.ops = gen_ops(wr, thorough);
        vsim::Config cfg = gen_cfg(wr, thorough);
        g_cur.res.workload = ops_text(g_cur.ops);
        {
            uint64_t h = 0;
            for (const Op& o : g_cur.ops)
                h = vsim::mix64(h, static_cast<uint64_t>(o.type) * 1000003ULL + static_cast<uint64_t>(o.a) * 10007ULL
                                       + static_cast<uint64_t>(o.b) * 101ULL + static_cast<uint64_t>(o.c));
            g_cur.res.workload_hash = h;
        }
        vh::print_begin(run);
        run_one(g_cur.ops, cfg);
        if (g_args.verify_replay && g_cur.res.verdict == "ok" && !vsim::deviations_overflowed())
        {
            // exactness of record/replay: the recorded deviations alone must reproduce the execution
            vh::Result first = g_cur.res;
            vsim::Config rc;
            rc.strategy = vsim::ST_REPLAY;
            rc.replay = vsim::deviations();
            rc.step_budget = cfg.step_budget;
            run_one(g_cur.ops, rc);
            if (g_cur.res.st.event_hash != first.st.event_hash)
            {
                first.verdict = "internal";
                first.cls = "replay_mismatch";
                first.detail = "replaying the recorded deviations gave event hash " + vh::hex64(g_cur.res.st.event_hash) + " instead of "
                               + vh::hex64(first.st.event_hash);
            }
            first.counters["p.replay_verified"] = 1;
            g_cur.res = first;
        }
        // non-trivial: at least two threads were simultaneously enabled and the schedule deviated
        g_cur.res.nontrivial = g_cur.res.st.decisions_multi > 0 && g_cur.res.st.switches > g_cur.res.st.forced_switches;
        if (g_cur.res.verdict != "ok")
        {
            if (g_args.gates(g_cur.res.cls))
            {
                g_cur.res.replay_path = write_replay(g_cur.res.cls, g_cur.res.detail);
                ++nviol;
            }
            else
            {
                // belongs to another property's check: count it, keep going
                g_cur.res.counters["other." + g_cur.res.cls] = 1;
                g_cur.res.verdict = "ok";
                g_cur.res.detail.clear();
            }
        }
        g_agg.add(g_cur.res);
        vh::print_result(g_cur.res, (run % 997) == 0);
        if (nviol >= g_args.max_viol && !g_args.keep_going)
            break;
    }
    g_agg.print();
    return 0;
}
