// Deterministic scheduler: real threads, exactly one released at a time.
// NEVER compile this file with -fsanitize=* or -finstrument-functions.
#include "sched.hpp"

#include <atomic>
#include <climits>
#include <cmath>
#include <cstdio>
#include <cstdlib>
#include <cstring>

#include <linux/futex.h>
#include <sys/syscall.h>
#include <unistd.h>

#define FASTSCAPELIB_VERIF_HOOKS
#include "fastscapelib/utils/verif_hooks.hpp"

namespace fv = fastscapelib::verif;

namespace vsim
{
    // ------------------------------------------------------------------ PRNG
    static inline uint64_t rotl(uint64_t x, int k)
    {
        return (x << k) | (x >> (64 - k));
    }
    static inline uint64_t splitmix(uint64_t& x)
    {
        uint64_t z = (x += 0x9e3779b97f4a7c15ULL);
        z = (z ^ (z >> 30)) * 0xbf58476d1ce4e5b9ULL;
        z = (z ^ (z >> 27)) * 0x94d049bb133111ebULL;
        return z ^ (z >> 31);
    }
    void Rng::seed(uint64_t x)
    {
        for (auto& v : s)
            v = splitmix(x);
    }
    uint64_t Rng::next()
    {
        const uint64_t result = rotl(s[1] * 5, 7) * 9;
        const uint64_t t = s[1] << 17;
        s[2] ^= s[0];
        s[3] ^= s[1];
        s[1] ^= s[2];
        s[0] ^= s[3];
        s[2] ^= t;
        s[3] = rotl(s[3], 45);
        return result;
    }
    uint64_t mix64(uint64_t a, uint64_t b)
    {
        uint64_t x = a ^ (b + 0x9e3779b97f4a7c15ULL + (a << 6) + (a >> 2));
        return splitmix(x);
    }

    // ------------------------------------------------------------------ futex baton
    static inline void futex_wait(std::atomic<int>* addr, int val)
    {
        syscall(SYS_futex, reinterpret_cast<int*>(addr), FUTEX_WAIT_PRIVATE, val, nullptr, nullptr, 0);
    }
    static inline void futex_wake(std::atomic<int>* addr)
    {
        syscall(SYS_futex, reinterpret_cast<int*>(addr), FUTEX_WAKE_PRIVATE, INT_MAX, nullptr, nullptr, 0);
    }

    // ------------------------------------------------------------------ state
    enum TState : int
    {
        T_NONE = 0,
        T_RUNNABLE,
        T_POLLING,
        T_BLK_MUTEX,
        T_BLK_CV,
        T_BLK_JOIN,
        T_FINISHED
    };
    static const char* tstate_name(int s)
    {
        static const char* n[] = { "none", "runnable", "polling", "blocked-mutex", "blocked-cv", "blocked-join", "finished" };
        return n[s];
    }
    static const char* kind_name(int k)
    {
        static const char* n[] = { "point", "load", "store", "rmw", "poll", "lock", "unlock", "cv_wait", "notify_all",
                                   "spawned", "thread_begin", "thread_end", "join", "job_begin", "job_end", "fn" };
        return (k >= 0 && k < 16) ? n[k] : "?";
    }
    static const char* site_name(int s)
    {
        static const char* n[] = { "worker_loop", "worker_loop_end", "has_job", "stopped", "wait", "pause_spin",
                                   "paused_count", "cv", "cv_mutex", "worker", "resize", "job", "paused_flag" };
        return (s >= 0 && s < 13) ? n[s] : "harness";
    }

    static constexpr int MAXT = 2048;
    static constexpr int R_CONFIRM = 3;

    struct SimThread
    {
        std::atomic<int> go{ 0 };
        int id = 0;
        int st = T_NONE;
        int pool = -1;  // pool sequence number
        std::size_t widx = 0;
        int wait_pool = -1;
        int wait_thr = -1;
        int poll_site = -1;
        uint64_t poll_epoch = 0;
        int poll_repeats = 0;
        bool active_since_poll = true;
        bool pending_write = false;
        uint64_t nsync = 0, nfn = 0;
        uint64_t ndec = 0;  // scheduling decisions taken by this thread at sync points (key of 'S' deviations)
        int64_t preempt_countdown = 0;
        uint64_t prio = 0;
        bool in_job = false;
        bool counted = false;  // between ++paused_count and --paused_count
        bool spur_woken = false;
        uint64_t withheld_until = 0;
        int last_site = -1, last_kind = -1;
    };

    struct Arrival
    {
        std::atomic<int> go{ 0 };
        SimThread* rec = nullptr;
    };

    struct Event
    {
        uint64_t step;
        int thr, kind, site;
        uint64_t arg;
    };

    static SimThread g_thr[MAXT];
    static int g_nthr = 0;
    static bool g_active = false;
    static thread_local SimThread* tl_me = nullptr;
    static thread_local int tl_in_sched = 0;

    static std::atomic<Arrival*> g_arrival{ nullptr };
    static std::atomic<int> g_arrival_flag{ 0 };

    static Config g_cfg;
    static Stats g_st;
    static Rng g_rng;
    static uint64_t g_epoch = 1;
    static uint64_t g_decisions = 0;
    // NOTE: no STL containers / heap allocation in anything the hooks touch: template code would be
    // shared (COMDAT) with the instrumented harness objects and become visible to ThreadSanitizer.
    static constexpr std::size_t MAXDEV = 1u << 19;
    static Deviation g_devs[MAXDEV];
    static std::size_t g_ndevs = 0;
    static bool g_devs_overflow = false;
    static constexpr int MAXPOOLS = 1024;
    static const void* g_pools[MAXPOOLS];  // pool pointer -> sequence number
    static int g_mutex_owner[MAXPOOLS];    // per pool: owner thread id or -1
    static int g_npools = 0;
    static uint64_t g_pct_points[8];
    static int g_npct = 0;
    static int g_stall_victim = -1;
    static fatal_fn g_fatal = nullptr;
    struct ReplayEntry
    {
        uint64_t key;
        Deviation d;
    };
    static ReplayEntry* g_replay = nullptr;  // sorted by key (stable), built in begin()
    static std::size_t g_nreplay = 0;
    static bool g_replay_has_f = false;

    static inline void push_dev(const Deviation& d)
    {
        if (g_ndevs < MAXDEV)
            g_devs[g_ndevs++] = d;
        else
            g_devs_overflow = true;
    }
    // first replay entry with the given key, or nullptr
    static const ReplayEntry* replay_find(uint64_t key)
    {
        std::size_t lo = 0, hi = g_nreplay;
        while (lo < hi)
        {
            std::size_t mid = (lo + hi) / 2;
            if (g_replay[mid].key < key)
                lo = mid + 1;
            else
                hi = mid;
        }
        return (lo < g_nreplay && g_replay[lo].key == key) ? &g_replay[lo] : nullptr;
    }

    static constexpr std::size_t RING = 4096;
    static Event g_ring[RING];
    static uint64_t g_nev = 0;

    static std::atomic<uint64_t> g_tsan_reports{ 0 };

    static inline uint64_t rkey(char cls, int thr, uint64_t count)
    {
        return (static_cast<uint64_t>(static_cast<unsigned char>(cls)) << 56) ^ (static_cast<uint64_t>(thr) << 40) ^ count;
    }

    static int pool_id(const void* p)
    {
        for (int i = 0; i < g_npools; ++i)
            if (g_pools[i] == p)
                return i;
        if (g_npools >= MAXPOOLS)
            return MAXPOOLS - 1;
        g_pools[g_npools] = p;
        g_mutex_owner[g_npools] = -1;
        return g_npools++;
    }

    static inline void log_event(int thr, int kind, int site, uint64_t arg)
    {
        Event& e = g_ring[g_nev % RING];
        e.step = g_st.steps;
        e.thr = thr;
        e.kind = kind;
        e.site = site;
        e.arg = arg;
        ++g_nev;
        uint64_t h = g_st.event_hash;
        h = mix64(h, (static_cast<uint64_t>(thr) << 32) ^ (static_cast<uint64_t>(kind) << 16) ^ static_cast<uint64_t>(site & 0xffff));
        h = mix64(h, arg);
        g_st.event_hash = h;
    }

    std::string log_tail(std::size_t n)
    {
        std::string out;
        uint64_t from = g_nev > n ? g_nev - n : 0;
        if (g_nev > RING && from < g_nev - RING)
            from = g_nev - RING;
        char buf[160];
        for (uint64_t i = from; i < g_nev; ++i)
        {
            const Event& e = g_ring[i % RING];
            if (e.kind >= 100)
                snprintf(buf, sizeof buf, "%llu:t%d:note%d(%llu);", (unsigned long long) e.step, e.thr, e.kind - 100,
                         (unsigned long long) e.arg);
            else
                snprintf(buf, sizeof buf, "%llu:t%d:%s@%s(%llu);", (unsigned long long) e.step, e.thr, kind_name(e.kind),
                         site_name(e.site), (unsigned long long) e.arg);
            out += buf;
        }
        return out;
    }

    static std::string describe_threads()
    {
        std::string out;
        char buf[200];
        for (int i = 0; i < g_nthr; ++i)
        {
            SimThread& t = g_thr[i];
            if (t.st == T_FINISHED)
                continue;
            snprintf(buf, sizeof buf, "t%d(pool%d/w%zu):%s last=%s@%s", t.id, t.pool, t.widx, tstate_name(t.st),
                     kind_name(t.last_kind), site_name(t.last_site));
            out += buf;
            if (t.st == T_BLK_JOIN)
            {
                snprintf(buf, sizeof buf, " on t%d", t.wait_thr);
                out += buf;
            }
            if (t.st == T_BLK_MUTEX || t.st == T_BLK_CV)
            {
                snprintf(buf, sizeof buf, " on pool%d", t.wait_pool);
                out += buf;
            }
            if (t.counted)
                out += " counted-as-paused";
            out += "; ";
        }
        return out;
    }

    [[noreturn]] static void fatal(int verdict, const char* what)
    {
        HangInfo hi;
        hi.verdict = verdict;
        hi.text = std::string(what) + " | " + describe_threads();
        if (g_fatal)
            g_fatal(hi);
        fprintf(stderr, "vsim fatal: %s\n", hi.text.c_str());
        _exit(70);
    }

    static inline void bump_epoch()
    {
        ++g_epoch;
        for (int i = 0; i < g_nthr; ++i)
            if (g_thr[i].st == T_POLLING)
                g_thr[i].st = T_RUNNABLE;
    }

    static inline void apply_pending(SimThread* me)
    {
        if (me->pending_write)
        {
            me->pending_write = false;
            bump_epoch();
        }
    }

    static inline void cover_pair(const SimThread* a, const SimThread* b)
    {
        // adjacency coverage: (kind,site) of the thread switched from x (kind,site) of the thread switched to
        unsigned ka = static_cast<unsigned>((a->last_kind & 15) * 13 + (a->last_site >= 0 && a->last_site < 13 ? a->last_site : 0));
        unsigned kb = static_cast<unsigned>((b->last_kind & 15) * 13 + (b->last_site >= 0 && b->last_site < 13 ? b->last_site : 0));
        unsigned bit = (ka * 211u + kb) % 2048u;
        g_st.pair_bits[bit >> 5] |= (1u << (bit & 31));
    }

    // hand the baton to `next`; `me` waits for its turn unless it has finished
    static void switch_to(SimThread* me, SimThread* next, bool forced)
    {
        if (next == me)
            return;
        ++g_st.switches;
        if (forced)
            ++g_st.forced_switches;
        if (me->in_job)
            ++g_st.probe_switch_inside_job;
        cover_pair(me, next);
        g_st.sched_hash = mix64(g_st.sched_hash, (static_cast<uint64_t>(me->id) << 32) ^ static_cast<uint64_t>(next->id));
        bool wait = me->st != T_FINISHED;
        next->go.store(1, std::memory_order_release);
        futex_wake(&next->go);
        if (!wait)
            return;
        while (me->go.load(std::memory_order_acquire) == 0)
            futex_wait(&me->go, 0);
        me->go.store(0, std::memory_order_relaxed);
    }

    // Decide who runs next. `me` is the deciding thread; it may continue only if RUNNABLE.
    static SimThread* choose(SimThread* me, char cls, uint64_t count, bool only_preempt)
    {
        ++g_decisions;
        // one hook may take several decisions (yield, then block on the model mutex, ...): key each
        // 'S' decision by the deciding thread's own decision counter, so that replay is exact
        if (cls == 'S')
            count = ++me->ndec;
        // enabled sets
        int all[64];
        int nall = 0;
        int filt[64];
        int nfilt = 0;
        int live = 0;
        for (int i = 0; i < g_nthr; ++i)
        {
            SimThread& t = g_thr[i];
            if (t.st != T_FINISHED && t.st != T_NONE)
                ++live;
            if (t.st == T_RUNNABLE && nall < 64)
            {
                all[nall++] = i;
                if (t.withheld_until <= g_decisions)
                    filt[nfilt++] = i;
            }
        }
        if (static_cast<uint64_t>(live) > g_st.max_live)
            g_st.max_live = static_cast<uint64_t>(live);

        if (nall == 0)
        {
            // nobody can make visible progress: confirm with the polling threads, else hang
            SimThread* best = nullptr;
            bool any_blocked = false;
            for (int i = 0; i < g_nthr; ++i)
            {
                SimThread& t = g_thr[i];
                if (t.st == T_POLLING)
                {
                    if (!best || t.poll_repeats < best->poll_repeats)
                        best = &t;
                }
                else if (t.st == T_BLK_MUTEX || t.st == T_BLK_CV || t.st == T_BLK_JOIN)
                    any_blocked = true;
            }
            if (best && best->poll_repeats < R_CONFIRM + 1)
                return best;
            if (!best && !any_blocked)
                fatal(V_HANG, "simulator: no live thread left to run");
            fatal(V_HANG, best ? "hang: every live thread is blocked or busy-waiting and no thread can change what they wait for"
                               : "deadlock: every live thread is blocked");
        }
        if (nall >= 2)
            ++g_st.decisions_multi;

        // default policy: keep running, else lowest id
        SimThread* def = (me->st == T_RUNNABLE) ? me : &g_thr[all[0]];
        if (only_preempt)
            def = me;

        SimThread* pick = def;
        if (g_cfg.strategy == ST_REPLAY)
        {
            const uint64_t key = rkey(cls, me->id, count);
            const ReplayEntry* re = replay_find(key);
            if (re != nullptr)
            {
                for (; re < g_replay + g_nreplay && re->key == key; ++re)
                {
                    const Deviation& d = re->d;
                    if (d.to < 0 || d.to >= g_nthr)
                        continue;
                    SimThread* t = &g_thr[d.to];
                    if (d.spur)
                    {
                        if (t->st == T_BLK_CV)
                        {
                            t->st = T_RUNNABLE;
                            t->spur_woken = true;
                            ++g_st.spurious;
                            push_dev(d);
                        }
                    }
                    else if (t->st == T_RUNNABLE)
                        pick = t;
                }
            }
        }
        else if (only_preempt)
        {
            // function-boundary preemption: uniformly among the other enabled threads
            int cand[64];
            int nc = 0;
            for (int i = 0; i < nfilt; ++i)
                if (filt[i] != me->id)
                    cand[nc++] = filt[i];
            if (nc > 0)
                pick = &g_thr[cand[g_rng.below(static_cast<uint64_t>(nc))]];
        }
        else
        {
            // faults first: spurious wake-up, stall
            if (g_cfg.p_spurious > 0.0 && g_st.spurious < static_cast<uint64_t>(g_cfg.max_spurious))
            {
                int cvw[64];
                int ncv = 0;
                for (int i = 0; i < g_nthr && ncv < 64; ++i)
                    if (g_thr[i].st == T_BLK_CV)
                        cvw[ncv++] = i;
                if (ncv > 0 && g_rng.chance(g_cfg.p_spurious))
                {
                    SimThread* w = &g_thr[cvw[g_rng.below(static_cast<uint64_t>(ncv))]];
                    w->st = T_RUNNABLE;
                    w->spur_woken = true;
                    ++g_st.spurious;
                    for (int i = 0; i < g_nthr; ++i)
                        if (g_thr[i].st != T_FINISHED && g_thr[i].last_site == fv::s_pause_spin)
                        {
                            ++g_st.probe_spurious_before_full_count;
                            break;
                        }
                    push_dev(Deviation{ cls, me->id, count, w->id, 1 });
                    if (nfilt < 64)
                        filt[nfilt++] = w->id;
                }
            }
            if (g_cfg.stall_max > 0 && g_stall_victim < 0 && nfilt >= 2 && g_rng.chance(g_cfg.p_stall))
            {
                int v = filt[g_rng.below(static_cast<uint64_t>(nfilt))];
                g_thr[v].withheld_until = g_decisions + static_cast<uint64_t>(g_rng.range(1, g_cfg.stall_max));
                g_stall_victim = v;
                ++g_st.stalls;
                // rebuild filtered set
                int k = 0;
                for (int i = 0; i < nfilt; ++i)
                    if (filt[i] != v)
                        filt[k++] = filt[i];
                nfilt = k;
            }
            if (g_stall_victim >= 0)
            {
                if (g_thr[g_stall_victim].withheld_until <= g_decisions || g_thr[g_stall_victim].st == T_FINISHED)
                    g_stall_victim = -1;
                else
                    ++g_st.stall_steps;
            }
            if (nfilt == 0)
            {
                // everybody enabled is withheld: lift
                for (int i = 0; i < nall; ++i)
                    filt[nfilt++] = all[i];
            }
            bool me_ok = false;
            for (int i = 0; i < nfilt; ++i)
                if (filt[i] == me->id)
                    me_ok = true;
            SimThread* fdef = (me->st == T_RUNNABLE && me_ok) ? me : &g_thr[filt[0]];
            switch (g_cfg.strategy)
            {
                case ST_RUN_TO_BLOCK:
                    pick = fdef;
                    break;
                case ST_RANDOM:
                    if (g_rng.chance(g_cfg.p_switch))
                        pick = &g_thr[filt[g_rng.below(static_cast<uint64_t>(nfilt))]];
                    else
                        pick = fdef;
                    break;
                case ST_PCT:
                {
                    for (int i = 0; i < g_npct; ++i)
                        if (g_pct_points[i] == g_st.steps && me->st != T_FINISHED)
                            me->prio = static_cast<uint64_t>(i);  // lowest priorities: 0..d-1
                    SimThread* best = &g_thr[filt[0]];
                    for (int i = 1; i < nfilt; ++i)
                        if (g_thr[filt[i]].prio > best->prio)
                            best = &g_thr[filt[i]];
                    pick = best;
                    break;
                }
                default:
                    pick = fdef;
            }
        }
        if (pick != def)
        {
            push_dev(Deviation{ cls, me->id, count, pick->id, 0 });
        }
        return pick;
    }

    static void yield_point(SimThread* me, char cls, uint64_t count)
    {
        SimThread* next = choose(me, cls, count, false);
        switch_to(me, next, me->st != T_RUNNABLE);
    }

    static void block_until_runnable(SimThread* me, char cls)
    {
        // me->st is a blocked state; hand over and come back when somebody made us runnable
        SimThread* next = choose(me, cls, me->nsync, false);
        switch_to(me, next, true);
    }

    static void model_lock(SimThread* me, int pool)
    {
        while (g_mutex_owner[pool] != -1)
        {
            me->st = T_BLK_MUTEX;
            me->wait_pool = pool;
            block_until_runnable(me, 'S');
        }
        g_mutex_owner[pool] = me->id;
    }

    static void model_unlock(int pool)
    {
        g_mutex_owner[pool] = -1;
        for (int i = 0; i < g_nthr; ++i)
            if (g_thr[i].st == T_BLK_MUTEX && g_thr[i].wait_pool == pool)
                g_thr[i].st = T_RUNNABLE;
        bump_epoch();
    }

    static SimThread* new_thread(int pool, std::size_t widx)
    {
        if (g_nthr >= MAXT)
            fatal(V_BUDGET, "simulator: too many threads in one run");
        SimThread* t = &g_thr[g_nthr];
        t->go.store(0);
        t->id = g_nthr;
        t->st = T_RUNNABLE;
        t->pool = pool;
        t->widx = widx;
        t->wait_pool = t->wait_thr = -1;
        t->poll_site = -1;
        t->poll_epoch = 0;
        t->poll_repeats = 0;
        t->active_since_poll = true;
        t->pending_write = false;
        t->nsync = t->nfn = 0;
        t->ndec = 0;
        t->preempt_countdown = 0;
        t->prio = 0;
        t->in_job = false;
        t->counted = false;
        t->spur_woken = false;
        t->withheld_until = 0;
        t->last_site = t->last_kind = -1;
        ++g_nthr;
        ++g_st.threads;
        return t;
    }

    static void draw_preempt(SimThread* t)
    {
        if (g_cfg.preempt_density <= 0.0 || g_cfg.strategy == ST_REPLAY)
        {
            t->preempt_countdown = INT64_MAX;
            return;
        }
        // bursts: sometimes the next preemption follows closely (two nearby preemptions line up
        // windows that a single delay cannot)
        if (g_cfg.preempt_burst > 0.0 && g_rng.chance(g_cfg.preempt_burst))
        {
            t->preempt_countdown = g_rng.range(1, 24);
            return;
        }
        // geometric gap with mean 1/density
        double u = g_rng.unit();
        double gap = 1.0 + (-std::log(1.0 - u * 0.999999)) / g_cfg.preempt_density;
        t->preempt_countdown = gap > 1e15 ? INT64_MAX : static_cast<int64_t>(gap);
    }

    // ------------------------------------------------------------------ the hook
    static void on_sync(int kind, int site, const void* obj, std::size_t arg)
    {
        if (!g_active)
            return;
        SimThread* me = tl_me;
        if (me == nullptr)
        {
            if (kind != fv::k_thread_begin)
                return;
            // register with the creator, which is waiting in its k_spawned hook
            Arrival a;
            g_arrival.store(&a, std::memory_order_release);
            g_arrival_flag.store(1, std::memory_order_release);
            futex_wake(&g_arrival_flag);
            while (a.go.load(std::memory_order_acquire) == 0)
                futex_wait(&a.go, 0);
            me = a.rec;
            tl_me = me;
            // park until scheduled
            while (me->go.load(std::memory_order_acquire) == 0)
                futex_wait(&me->go, 0);
            me->go.store(0, std::memory_order_relaxed);
            ++me->nsync;
            ++g_st.steps;
            me->last_kind = kind;
            me->last_site = site;
            log_event(me->id, kind, site, arg);
            return;
        }
        if (tl_in_sched)
            return;
        tl_in_sched = 1;

        apply_pending(me);
        ++g_st.steps;
        ++me->nsync;
        me->last_kind = kind;
        me->last_site = site;
        const int pool = obj ? pool_id(obj) : -1;
        log_event(me->id, kind, site, (kind == fv::k_point && site == fv::s_resize) ? arg : (arg & 0xffff) | (static_cast<uint64_t>(pool + 1) << 16));
        if (g_st.steps > g_cfg.step_budget)
            fatal(V_BUDGET, "step budget exhausted: a call did not return within the bounded number of scheduler steps");

        const bool passive = (kind == fv::k_point || kind == fv::k_load || kind == fv::k_poll);
        if (!passive)
            me->active_since_poll = true;

        switch (kind)
        {
            case fv::k_store:
                me->pending_write = true;
                yield_point(me, 'S', me->nsync);
                break;
            case fv::k_rmw_done:
                if (site == fv::s_paused_count)
                    me->counted = !me->counted;
                bump_epoch();
                yield_point(me, 'S', me->nsync);
                break;
            case fv::k_poll:
                if (me->poll_site == site && me->poll_epoch == g_epoch && !me->active_since_poll)
                {
                    ++me->poll_repeats;
                    if (me->st != T_POLLING)
                    {
                        me->st = T_POLLING;
                        ++g_st.polling_marks;
                    }
                }
                else
                {
                    me->poll_site = site;
                    me->poll_epoch = g_epoch;
                    me->poll_repeats = 0;
                    me->st = T_RUNNABLE;
                }
                me->active_since_poll = false;
                yield_point(me, 'S', me->nsync);
                // when we come back we may still be POLLING (confirmation round) or RUNNABLE
                break;
            case fv::k_job_begin:
                for (int i = 0; i < g_nthr; ++i)
                    if (g_thr[i].in_job && g_thr[i].st != T_FINISHED)
                    {
                        ++g_st.probe_concurrent_jobs;
                        break;
                    }
                me->in_job = true;
                yield_point(me, 'S', me->nsync);
                break;
            case fv::k_job_end:
                me->in_job = false;
                yield_point(me, 'S', me->nsync);
                break;
            case fv::k_mutex_lock:
                yield_point(me, 'S', me->nsync);
                model_lock(me, pool);
                break;
            case fv::k_mutex_unlock:
                model_unlock(pool);
                yield_point(me, 'S', me->nsync);
                break;
            case fv::k_cv_wait:
            {
                ++g_st.cv_waits;
                // release the model mutex and block on the cv
                g_mutex_owner[pool] = -1;
                for (int i = 0; i < g_nthr; ++i)
                    if (g_thr[i].st == T_BLK_MUTEX && g_thr[i].wait_pool == pool)
                        g_thr[i].st = T_RUNNABLE;
                bump_epoch();
                me->st = T_BLK_CV;
                me->wait_pool = pool;
                block_until_runnable(me, 'S');
                // woken by notify or spuriously: re-acquire the mutex
                model_lock(me, pool);
                me->spur_woken = false;
                break;
            }
            case fv::k_cv_notify_all:
            {
                ++g_st.notifies;
                bool missed = false;
                for (int i = 0; i < g_nthr; ++i)
                {
                    SimThread& t = g_thr[i];
                    if (t.st == T_BLK_CV && t.wait_pool == pool)
                    {
                        t.st = T_RUNNABLE;
                        ++g_st.notify_woke;
                    }
                    else if (t.pool == pool && t.counted && t.st != T_FINISHED && t.st != T_BLK_CV && !t.spur_woken)
                        missed = true;
                }
                if (missed)
                    ++g_st.probe_notify_between_count_and_wait;
                bump_epoch();
                yield_point(me, 'S', me->nsync);
                break;
            }
            case fv::k_spawned:
            {
                // wait for the child to arrive at its k_thread_begin hook
                while (g_arrival_flag.load(std::memory_order_acquire) == 0)
                    futex_wait(&g_arrival_flag, 0);
                Arrival* a = g_arrival.load(std::memory_order_acquire);
                g_arrival_flag.store(0, std::memory_order_relaxed);
                g_arrival.store(nullptr, std::memory_order_relaxed);
                SimThread* child = new_thread(pool, arg);
                if (g_cfg.strategy == ST_PCT)
                    child->prio = g_cfg.pct_depth + 1 + (g_rng.next() >> 20);
                if (g_cfg.strategy != ST_REPLAY)
                {
                    draw_preempt(child);
                    if (g_cfg.start_delay_max > 0 && g_rng.chance(0.5))
                    {
                        child->withheld_until = g_decisions + static_cast<uint64_t>(g_rng.range(1, g_cfg.start_delay_max));
                        ++g_st.delayed_starts;
                    }
                }
                else
                    child->preempt_countdown = INT64_MAX;
                a->rec = child;
                a->go.store(1, std::memory_order_release);
                futex_wake(&a->go);
                yield_point(me, 'S', me->nsync);
                break;
            }
            case fv::k_join:
            {
                SimThread* target = nullptr;
                for (int i = g_nthr - 1; i >= 0; --i)
                    if (g_thr[i].pool == pool && g_thr[i].widx == arg && g_thr[i].id != 0)
                    {
                        target = &g_thr[i];
                        break;
                    }
                yield_point(me, 'S', me->nsync);
                if (target)
                    while (target->st != T_FINISHED)
                    {
                        me->st = T_BLK_JOIN;
                        me->wait_thr = target->id;
                        block_until_runnable(me, 'S');
                    }
                break;
            }
            case fv::k_thread_end:
            {
                me->st = T_FINISHED;
                for (int i = 0; i < g_nthr; ++i)
                    if (g_thr[i].st == T_BLK_JOIN && g_thr[i].wait_thr == me->id)
                        g_thr[i].st = T_RUNNABLE;
                bump_epoch();
                tl_me = nullptr;
                SimThread* next = choose(me, 'S', me->nsync, false);
                switch_to(me, next, true);
                break;
            }
            default:  // point, load
                yield_point(me, 'S', me->nsync);
                break;
        }
        tl_in_sched = 0;
    }

    static const fv::hook_table g_table = { &on_sync };

    void install()
    {
        fv::table = &g_table;
    }
    void set_fatal_handler(fatal_fn f)
    {
        g_fatal = f;
    }

    void begin(const Config& cfg)
    {
        g_cfg = cfg;
        g_st = Stats();
        g_rng.seed(cfg.sched_seed);
        g_epoch = 1;
        g_decisions = 0;
        g_ndevs = 0;
        g_devs_overflow = false;
        g_npools = 0;
        g_npct = 0;
        g_stall_victim = -1;
        g_nthr = 0;
        g_nev = 0;
        free(g_replay);
        g_replay = nullptr;
        g_nreplay = 0;
        g_replay_has_f = false;
        if (cfg.strategy == ST_REPLAY && !cfg.replay.empty())
        {
            g_nreplay = cfg.replay.size();
            g_replay = static_cast<ReplayEntry*>(malloc(sizeof(ReplayEntry) * g_nreplay));
            for (std::size_t i = 0; i < g_nreplay; ++i)
            {
                const Deviation& d = cfg.replay[i];
                g_replay[i].key = rkey(d.cls, d.thr, d.count);
                g_replay[i].d = d;
                if (d.cls == 'F')
                    g_replay_has_f = true;
            }
            // stable insertion sort by key (replay lists are short)
            for (std::size_t i = 1; i < g_nreplay; ++i)
            {
                ReplayEntry e = g_replay[i];
                std::size_t j = i;
                while (j > 0 && g_replay[j - 1].key > e.key)
                {
                    g_replay[j] = g_replay[j - 1];
                    --j;
                }
                g_replay[j] = e;
            }
        }
        if (cfg.strategy == ST_PCT)
            for (int i = 0; i < cfg.pct_depth && i < 8; ++i)
                g_pct_points[g_npct++] = g_rng.below(cfg.pct_horizon ? cfg.pct_horizon : 1);
        SimThread* me = new_thread(-1, 0);
        if (cfg.strategy == ST_PCT)
            me->prio = cfg.pct_depth + 1 + (g_rng.next() >> 20);
        draw_preempt(me);
        tl_me = me;
        tl_in_sched = 0;
        g_active = true;
    }

    Stats end()
    {
        SimThread* me = tl_me;
        if (me)
            apply_pending(me);
        for (int i = 1; i < g_nthr; ++i)
            if (g_thr[i].st != T_FINISHED)
                fatal(V_INTERNAL, "simulator: run ended while simulated threads are still alive (harness bug)");
        for (int i = 0; i < g_nthr; ++i)
            g_st.fn_points += g_thr[i].nfn;
        g_active = false;
        tl_me = nullptr;
        return g_st;
    }

    Stats current_stats()
    {
        Stats s = g_st;
        for (int i = 0; i < g_nthr; ++i)
            s.fn_points += g_thr[i].nfn;
        return s;
    }

    bool active()
    {
        return g_active;
    }
    std::vector<Deviation> deviations()
    {
        return std::vector<Deviation>(g_devs, g_devs + g_ndevs);
    }
    bool deviations_overflowed()
    {
        return g_devs_overflow;
    }
    int self()
    {
        return tl_me ? tl_me->id : -1;
    }
    uint64_t now()
    {
        return g_st.steps;
    }

    void note(uint32_t tag, uint64_t a, uint64_t b)
    {
        if (!g_active)
            return;
        SimThread* me = tl_me;
        int was = tl_in_sched;
        tl_in_sched = 1;
        log_event(me ? me->id : -1, 100 + static_cast<int>(tag), 99, mix64(a, b));
        tl_in_sched = was;
    }

    void point(int site)
    {
        on_sync(fv::k_point, site, nullptr, 0);
    }

    uint64_t tsan_reports()
    {
        return g_tsan_reports.load();
    }

    // function-boundary preemption point
    static inline void fn_point()
    {
        if (!g_active)
            return;
        SimThread* me = tl_me;
        if (me == nullptr || tl_in_sched)
            return;
        ++me->nfn;
        if (g_cfg.strategy == ST_REPLAY)
        {
            if (!g_replay_has_f)
                return;
            if (replay_find(rkey('F', me->id, me->nfn)) == nullptr)
                return;
        }
        else if (--me->preempt_countdown > 0)
            return;
        tl_in_sched = 1;
        apply_pending(me);
        SimThread* next = choose(me, 'F', me->nfn, true);
        if (next != me)
        {
            ++g_st.preemptions;
            int k = me->last_kind, s = me->last_site;
            me->last_kind = 15;
            switch_to(me, next, false);
            me->last_kind = k;
            me->last_site = s;
        }
        if (g_cfg.strategy != ST_REPLAY)
            draw_preempt(me);
        tl_in_sched = 0;
    }
}

extern "C"
{
    void __cyg_profile_func_enter(void*, void*)
    {
        vsim::fn_point();
    }
    void __cyg_profile_func_exit(void*, void*)
    {
    }
    // ThreadSanitizer calls this for every report (must live in uninstrumented code)
    void __tsan_on_report(void*)
    {
        vsim::g_tsan_reports.fetch_add(1, std::memory_order_relaxed);
    }
}
