// Deterministic scheduler for real threads: one simulated thread runs at a time.
// This TU is compiled WITHOUT any sanitizer / instrumentation (see Makefile): its
// hand-offs (raw futex + atomics) are invisible to ThreadSanitizer on purpose.
#pragma once
#include <cstddef>
#include <cstdint>
#include <string>
#include <vector>

namespace vsim
{
    // ---- PRNG (xoshiro256**, seeded through splitmix64) -------------------------------
    struct Rng
    {
        uint64_t s[4];
        void seed(uint64_t x);
        uint64_t next();
        // uniform in [0, n)
        uint64_t below(uint64_t n)
        {
            return n ? next() % n : 0;
        }
        // uniform in [a, b]
        int64_t range(int64_t a, int64_t b)
        {
            return a + static_cast<int64_t>(below(static_cast<uint64_t>(b - a + 1)));
        }
        double unit()
        {
            return (next() >> 11) * (1.0 / 9007199254740992.0);
        }
        bool chance(double p)
        {
            return unit() < p;
        }
    };
    uint64_t mix64(uint64_t a, uint64_t b);

    // ---- schedule description -----------------------------------------------------------
    enum Strategy : int
    {
        ST_RUN_TO_BLOCK = 0,
        ST_RANDOM = 1,
        ST_PCT = 2,
        ST_REPLAY = 3
    };

    // a non-default decision: when thread `thr` takes its `count`-th decision of class `cls`
    // (S: scheduling decision at a sync hook, F: function-boundary point), hand over to thread `to`.
    // spur != 0: first wake `to` spuriously from its condition-variable wait.
    struct Deviation
    {
        char cls;
        int thr;
        uint64_t count;
        int to;
        int spur;
    };

    struct Config
    {
        int strategy = ST_RANDOM;
        uint64_t sched_seed = 1;
        double p_switch = 0.3;          // ST_RANDOM: probability of a random pick at a sync point
        int pct_depth = 2;              // ST_PCT: number of priority change points
        uint64_t pct_horizon = 2000;    // ST_PCT: change points are placed in [0, horizon)
        double p_spurious = 0.0;        // per decision, while some thread waits on a cv
        int max_spurious = 4;           // faults stop eventually: at most this many per run
        double preempt_density = 0.0;   // per function-boundary point
        double preempt_burst = 0.0;     // probability that the next preemption gap is drawn from [1, 24] points
        int stall_max = 0;              // >0: stall a random victim for up to this many decisions
        double p_stall = 0.0;           // probability per decision to start a stall
        int start_delay_max = 0;        // withhold freshly spawned threads for up to N decisions
        uint64_t step_budget = 400000;  // sync steps per run
        std::vector<Deviation> replay;  // ST_REPLAY
    };

    enum Verdict : int
    {
        V_OK = 0,
        V_HANG = 1,
        V_BUDGET = 2,
        V_INTERNAL = 3
    };

    struct Stats
    {
        uint64_t steps = 0;            // sync points passed (logical time)
        uint64_t fn_points = 0;        // function-boundary points passed
        uint64_t switches = 0;         // context switches
        uint64_t forced_switches = 0;  // switches because the current thread blocked/ended
        uint64_t decisions_multi = 0;  // decisions with >= 2 enabled threads
        uint64_t preemptions = 0;      // switches at function-boundary points
        uint64_t spurious = 0;         // spurious wake-ups fired
        uint64_t stalls = 0;           // stall episodes started
        uint64_t stall_steps = 0;      // decisions at which a victim was withheld
        uint64_t delayed_starts = 0;   // threads whose start was delayed
        uint64_t threads = 0;          // simulated threads created (incl. caller)
        uint64_t max_live = 0;
        uint64_t cv_waits = 0;
        uint64_t notifies = 0;
        uint64_t notify_woke = 0;
        uint64_t polling_marks = 0;
        // reach probes
        uint64_t probe_notify_between_count_and_wait = 0;  // notify while a counted worker not yet waiting
        uint64_t probe_spurious_before_full_count = 0;
        uint64_t probe_switch_inside_job = 0;  // switch away from a thread that is inside a job
        uint64_t probe_concurrent_jobs = 0;    // a job began while another job was in progress
        uint64_t event_hash = 0;
        uint64_t sched_hash = 0;       // hash of the context-switch sequence only
        uint32_t pair_bits[64] = {};   // adjacency coverage: (site,kind)->(site,kind) across switches
    };

    // description of the state when a hang / budget verdict is reached
    struct HangInfo
    {
        int verdict;
        std::string text;
    };

    // Called (on whatever thread detected it) when the run cannot continue. Must not return.
    using fatal_fn = void (*)(const HangInfo&);

    // install the hook table into fastscapelib::verif::table (once per process)
    void install();
    void set_fatal_handler(fatal_fn f);

    // begin a simulated run on the calling thread (becomes simulated thread 0)
    void begin(const Config& cfg);
    // end the run: every other simulated thread must have finished. Returns stats.
    Stats end();
    // snapshot of the statistics of the run in progress (for fatal handlers)
    Stats current_stats();
    bool active();

    // deviations recorded during the run (schedule relative to the default policy)
    std::vector<Deviation> deviations();
    bool deviations_overflowed();

    // fold harness-level events into the event hash / log
    void note(uint32_t tag, uint64_t a, uint64_t b = 0);
    // harness-level schedule point for the caller (kind k_point)
    void point(int site);

    // current simulated thread id (-1 outside), logical time
    int self();
    uint64_t now();

    // human-readable tail of the event log (last n events)
    std::string log_tail(std::size_t n);

    // sanitizer report counters (bumped from callbacks defined in sched.cpp)
    uint64_t tsan_reports();
}
